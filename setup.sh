#!/bin/bash
# offline sanity check of the interpreter and imports; installs nothing
cd "$(dirname "$0")" || exit 1
export PYTHONDONTWRITEBYTECODE=1
/venv/bin/python -B - <<'PY' || exit 1
import sys
sys.path.insert(0, ".")
import numpy, pandas, cryptorandom, svgling, colorama
from vlib import env
env.setup()
import shangrla
print("setup ok: python", sys.version.split()[0], "numpy", numpy.__version__, "pandas", pandas.__version__,
      "shangrla from", shangrla.__file__)
PY
mkdir -p evidence replay .scratch
