"""wrap(cls, name, post=None, pre=None): install a monitor on the real attribute of the real class.

The wrapper calls the original, then `post(rec, result, args, kwargs, old)` where `old = pre(args, kwargs)`;
the monitor records violations on the active recorder (it never raises into the code under test) and
counts its evaluations, so that zero evaluations of a deciding contract can be reported as inconclusive.
References bound before wrapping bypass the contract: install before any library object is constructed.
"""
import functools

_installed = {}


def wrap(cls, name, rec, post=None, pre=None, label=None):
    key = (cls, name)
    if key in _installed:
        unwrap(cls, name)
    raw = cls.__dict__[name]
    kind = "classmethod" if isinstance(raw, classmethod) else "staticmethod" if isinstance(raw, staticmethod) else "function"
    orig = raw.__func__ if kind != "function" else raw
    label = label or f"{cls.__name__}.{name}"

    @functools.wraps(orig)
    def wrapper(*a, **k):
        old = None
        if pre is not None:
            try:
                old = pre(a, k)
            except Exception:
                rec.count(f"contract_internal_error:{label}")
                return orig(*a, **k)
        result = orig(*a, **k)
        if post is not None:
            rec.count(f"contract:{label}")
            try:
                post(rec, result, a, k, old)
            except Exception as e:  # a bug or an unmet assumption of the monitor must never change the observed run
                rec.count(f"contract_internal_error:{label}")
                rec.count(f"contract_internal_error:{label}:{type(e).__name__}")
        return result

    wrapper.__wrapped_original__ = raw
    new = classmethod(wrapper) if kind == "classmethod" else staticmethod(wrapper) if kind == "staticmethod" else wrapper
    setattr(cls, name, new)
    _installed[key] = raw
    return wrapper


def unwrap(cls, name):
    raw = _installed.pop((cls, name), None)
    if raw is not None:
        setattr(cls, name, raw)


def unwrap_all():
    for (cls, name) in list(_installed):
        unwrap(cls, name)
