"""Generators and builders for NonnegMean configurations and samples (shared by C01 C05 C11 C12 C13 C16).

A configuration is a JSON-able dict:
  {"test": name, "estim": name|None, "bet": name|None, "u": float, "N": int|"inf", "t": float,
   "random_order": bool, "kw": {...tuning parameters...}}
All numbers are dyadic rationals (DESIGN 3.2) so that sums are exact in any order.
"""
import math
import random

import numpy as np

EPS = float(np.finfo(float).eps)

TESTS = ("alpha_mart", "betting_mart", "kaplan_kolmogorov", "kaplan_markov", "kaplan_wald", "wald_sprt")
PRODUCT_TESTS = ("alpha_mart", "betting_mart", "kaplan_kolmogorov", "wald_sprt")
# (test, estim, bet) combinations the library ships
COMBOS = (
    ("alpha_mart", "fixed_alternative_mean", None),
    ("alpha_mart", "shrink_trunc", None),
    ("alpha_mart", "optimal_comparison", None),
    ("betting_mart", None, "fixed_bet"),
    ("betting_mart", None, "agrapa"),
    ("kaplan_kolmogorov", None, None),
    ("kaplan_markov", None, None),
    ("kaplan_wald", None, None),
    ("wald_sprt", None, None),
)


def NM():
    from shangrla.core.NonnegMean import NonnegMean
    return NonnegMean


def _flag(cfg):
    """The random_order flag as the caller's pipeline holds it: a Python bool, or the same truth value as a numpy bool
    (a cell of an array / DataFrame, the result of np.all) or as 0 / 1."""
    import numpy as _np
    ro = bool(cfg.get("random_order", True))
    rep = cfg.get("flag_repr", "bool")
    return ro if rep == "bool" else (_np.bool_(ro) if rep == "numpy" else int(ro))


def build(cfg):
    """The real NonnegMean object for a configuration dict."""
    cls = NM()
    N = math.inf if cfg["N"] in ("inf", None) or cfg["N"] == math.inf else int(cfg["N"])
    if math.isfinite(N) and cfg.get("N_repr"):
        import numpy as _np
        N = _np.int64(N) if cfg["N_repr"] == "numpy_int64" else _np.int32(N)
    kw = dict(cfg.get("kw", {}))
    kb = {k_: v_ for k_, v_ in cfg.get("kw_built", {}).items() if k_ in kw and kw[k_] != v_}   # (a stratum may have dropped the key)
    kw.update(kb)
    obj = cls(test=getattr(cls, cfg["test"]),
              estim=getattr(cls, cfg["estim"]) if cfg.get("estim") else None,
              bet=getattr(cls, cfg["bet"]) if cfg.get("bet") else None,
              u=cfg.get("u_built", cfg["u"]), N=N, t=cfg["t"], random_order=_flag(cfg), **kw)
    if "u_built" in cfg:
        # the audit workflow constructs the test with one bound and installs the real one later (asn.test.u = u):
        # the object must behave as if it had been built with the bound it now holds
        obj.u = cfg["u"]
    for k_, v_ in kb.items():
        # tuning parameters given to the constructor and re-assigned as attributes afterwards (test.eta = ..., as for u and
        # N): the object must behave as if it had been built with the values it holds now
        setattr(obj, k_, cfg["kw"][k_])
    if "N_warm" in cfg and math.isfinite(N):
        # the same object is used for another population first (N is a plain attribute: sample_size(), re-used test
        # objects and notebooks re-assign it); a call with the old N must leave no trace
        obj.N = int(cfg["N_warm"])
        try:
            import numpy as _np
            with _np.errstate(all="ignore"):
                obj.test(_np.full(min(int(cfg["N_warm"]), int(cfg.get("warm_len", 1))), float(cfg["t"])))
        except Exception:
            pass
        obj.N = N
    if cfg.get("reused"):
        # the same object has just been used on ANOTHER sample of the same length (the reflected, reversed one): a test
        # object lives as long as its assertion and sees every round's data; nothing of an earlier call may leak
        import numpy as _np
        inner, state = obj.test, {"first": True}

        def test_after_other_sample(x, *a, **k):
            if state["first"]:
                state["first"] = False
                try:
                    with _np.errstate(all="ignore"):
                        xa = _np.asarray(x, dtype=float)
                        inner(_np.ascontiguousarray(float(obj.u) - xa[::-1]), *a, **k)
                except Exception:
                    pass
            return inner(x, *a, **k)

        obj.test = test_after_other_sample
    return obj


def to_array(x, cfg=None):
    """Samples are numpy arrays; integer-valued samples are sometimes handed over with an integer dtype (0/1 data)."""
    import numpy as _np
    if cfg is not None and cfg.get("int_dtype") and all(float(v).is_integer() for v in x):
        dt = cfg["int_dtype"]
        # 0/1 data arrive as whatever the caller's pipeline produced: int64, or a narrow type (uint8 / int8 / int32 / bool
        # marks) whose running total does not fit the type itself
        return _np.array([int(v) for v in x], dtype=(int if dt is True else dt))
    if cfg is not None and cfg.get("float_dtype"):
        # single-precision samples (data read from a compact file, or produced on a GPU): the values are the same numbers
        return _np.array(x, dtype=cfg["float_dtype"])
    return _np.array(x, dtype=float)


def cfgN(cfg):
    return math.inf if cfg["N"] in ("inf", None) or cfg["N"] == math.inf else int(cfg["N"])


def label(cfg):
    return cfg["test"] + (":" + cfg["estim"] if cfg.get("estim") else "") + (":" + cfg["bet"] if cfg.get("bet") else "")


def dyadic(rng, lo, hi, bits=4):
    """A dyadic rational k/2^bits in [lo, hi]."""
    s = 1 << bits
    a, b = math.ceil(lo * s), math.floor(hi * s)
    return rng.randint(a, b) / s


U_CHOICES = (1.0, 1.0, 1.0625, 1.5, 2.0, 1 + 2.0 ** -20, 1.25, 1.015625, 0.75, 0.9375)  # u < 1: polling a super-majority with share > 1/2


U_NONDYADIC = (4 / 3, 1.2, 2 / 1.9, 2 / 1.7, 1.1, 0.7, 2 / 1.95, 1.3, 1 / 1.2, 5 / 3, 1.6, 1.9, 2 / 1.1, 1.7, 2 / 1.3)


def gen_cfg(rng, combo=None, finite=None, n_max=12, allow_not_random=True, u=None, t=None, allow_default_eta=False,
            nondyadic_u=0.0):
    """A configuration inside the documented parameter ranges of its (test, estimator/bet).  nondyadic_u: share of
    configurations whose bound (and sometimes null mean) is not a dyadic rational - for monitors that do not need
    exact sums (ranges, well-formedness, non-anticipation)."""
    test, estim, bet = combo if combo else rng.choice(COMBOS)
    if u is None:
        u = rng.choice(U_CHOICES)
        if nondyadic_u and rng.random() < nondyadic_u:
            u = rng.choice(U_NONDYADIC)
            if t is None and rng.random() < 0.5:
                t = rng.choice((0.6, 0.45, 0.3, 0.55, 0.35))
    if estim == "optimal_comparison" and u <= 1 and rng.random() < 0.8:
        # mostly the comparison-audit regime u > 1; u <= 1 (CVRs that do not satisfy the assertion) stays in at 20 %
        u = rng.choice((1.0625, 1.5, 2.0, 1 + 2.0 ** -20, 1.25, 1.015625, 1 + 2.0 ** -10))
    elif estim == "optimal_comparison" and rng.random() < 0.1:
        u = rng.choice((0.9375, 0.75, 1.0))
    if t is None:
        t = 0.5 if rng.random() < 0.7 else rng.choice((0.25, 0.375, 0.625, 0.75, 0.125, 0.875))
        if t >= u:
            t = 0.5
    if test in ("kaplan_markov", "kaplan_wald"):
        finite = False  # documented as IID tests
    elif test == "kaplan_kolmogorov":
        finite = True if finite is None else finite
    elif finite is None:
        finite = rng.random() < 0.75
    random_order = True
    if allow_not_random and rng.random() < 0.25 and not (test == "wald_sprt" and finite):
        random_order = False
    N = rng.randint(1, n_max) if finite else "inf"
    kw = {}
    if test in ("kaplan_kolmogorov", "kaplan_markov", "kaplan_wald"):
        kw["g"] = rng.choice((0, 0, 0.0625, 0.125, 0.5, 0.9375))
    if test == "wald_sprt" or estim in ("fixed_alternative_mean", "shrink_trunc"):
        # eta in (t, u), sometimes within 2^-20 of either end
        r = rng.random()
        if r < 0.1:
            kw["eta"] = t + 2.0 ** -20
        elif r < 0.2:
            kw["eta"] = u - 2.0 ** -20
        else:
            kw["eta"] = t + (u - t) * rng.choice((0.125, 0.25, 0.5, 0.75, 0.875))
    if estim == "shrink_trunc":
        kw["c"] = rng.choice((2.0 ** -20, 2.0 ** -10, 0.25, 0.5, 1.0, 100.0))
        kw["d"] = rng.choice((2.0 ** -20, 2.0 ** -10, 1.0, 10.0, 100.0))
        kw["f"] = rng.choice((0, 0, 2.0 ** -10, 0.125, 1.0, 100.0))
        kw["minsd"] = rng.choice((2.0 ** -20, 2.0 ** -10, 1.0, 100.0))
    if estim == "optimal_comparison":
        kw["rate_error_2"] = rng.choice((2.0 ** -20, 2.0 ** -13, 2.0 ** -10, 2.0 ** -7, 2.0 ** -4, 0.25, 0.3125, 0, 0, 2.0 ** -60, 5e-324, 2.0 ** -1000))  # 0: the Audit default; rates below the resolution of 1 - p
    if bet == "fixed_bet":
        kw["lam"] = (1 / u) * rng.choice((2.0 ** -10, 0.25, 0.5, 0.75, 1.0))
    if bet == "agrapa":
        # the initial bet is a free aGRAPA parameter: values far above 1/t must be clipped by the rule itself
        kw["lam"] = (1 / u) * rng.choice((2.0 ** -10, 0.25, 0.5, 1.0, 1.0, 4.0, 16.0))
        c0 = rng.choice((0.125, 0.5, 0.75, 1 - EPS))
        kw["c_grapa_0"] = c0
        kw["c_grapa_max"] = rng.choice((c0, 1 - EPS, c0 / 2, c0 / 4))   # also schedules that shrink the clipping scale
        kw["c_grapa_grow"] = rng.choice((0, 0, 1, 10, 0.5, 1e308, 1e300))   # also rates at the edge of the double range
    # each tuning parameter that HAS a default is left to it now and then (all given / all default are two points of a
    # larger grid: defaults that depend on other parameters only show in the mixed cases)
    for k in ("c_grapa_0", "c_grapa_max", "c_grapa_grow", "c", "d", "f", "minsd", "rate_error_2") + (("lam",) if bet == "agrapa" else ()):
        if k in kw and rng.random() < 0.12:
            del kw[k]
    cfg = {"test": test, "estim": estim, "bet": bet, "u": u, "N": N, "t": t,
           "random_order": random_order, "kw": kw}
    if allow_default_eta and "eta" in kw and rng.random() < 0.2:
        # the caller relies on the constructor's default alternative (midway between the null mean and the bound)
        del kw["eta"]
        cfg["default_eta"] = True
        return cfg   # (built with the bound it is used with: the default is computed at construction)
    if rng.random() < 0.25:
        cfg["u_built"] = rng.choice((1.0, 2.0, 1.0, u * 2, max(t + 2.0 ** -6, u / 2)))
    if N != "inf" and rng.random() < 0.25:
        cfg["N_warm"] = rng.choice((N + 1, N + 7, 2 * N, max(1, N - 1), 1000))
    if u == 1.0 and rng.random() < 0.3:
        cfg["int_dtype"] = rng.choice((True, True, "uint8", "int8", "int32", "bool"))
    if rng.random() < 0.15:
        cfg["reused"] = True
    if rng.random() < 0.12:
        alt = {"eta": t + (u - t) * 0.3125, "c": 0.375, "d": 3.0, "f": 0.0625, "minsd": 0.03125, "g": 0.25, "lam": 0.375 / u,
               "rate_error_2": 2.0 ** -9}
        kb = {k_: alt[k_] for k_ in kw if k_ in alt and alt[k_] != kw[k_]}
        if kb:
            cfg["kw_built"] = kb
    if rng.random() < 0.2:
        cfg["flag_repr"] = rng.choice(("numpy", "int"))
    if N != "inf" and test == "wald_sprt" and rng.random() < 0.3:
        cfg["N_repr"] = rng.choice(("numpy_int64", "numpy_int32"))   # a finite N that is an integer but not a Python int
    return cfg


SAMPLE_STRATA = ("len1", "all_zero", "all_u", "all_t", "exceed_first", "exceed_middle", "exceed_last",
                 "m_to_0", "m_to_u", "m_above_u", "m_below_0", "census", "alternating", "random", "random",
                 "random", "mostly_one_value")


NONDYADIC = (0.7, 0.6, 0.55, 0.1, 1 / 3, 1 / 1.9, 0.9, 2 / 3, 0.3)


def gen_nondyadic(rng, u, cap):
    """Runs of identical values that are NOT exactly representable (assorter values such as 1/(2-v), 0.7, 1/3):
    in-domain for every property that does not need exact sums (well-formedness, ranges, non-anticipation)."""
    n = rng.randint(1, max(1, min(cap, 40)))
    x = []
    while len(x) < n:
        v = min(u, rng.choice(NONDYADIC) * rng.choice((1, 1, u)))
        x.extend([v] * rng.randint(1, 25))
        if rng.random() < 0.3:
            x.append(rng.choice((0.0, u)))
    return x[:n]


def gen_near_t(rng, cfg, cap):
    """Low-variance observations a hair around the null mean, then an extreme value (0 or u): the regime where a bet
    sits at its cap and the null conditional mean has drifted to the other side of t."""
    u, t = cfg["u"], cfg["t"]
    eps = rng.choice((0.01, 0.011, 0.001, 2.0 ** -7, 0.0003))
    k = rng.randint(1, max(1, min(cap - 1, 6)))
    x = [min(u, max(0.0, t + rng.choice((1, 1, -1, -1.1, 0.9)) * eps)) for _ in range(k)]
    x.append(rng.choice((0.0, 0.0, u)))
    for _ in range(rng.randint(0, 2)):
        x.append(rng.choice((0.0, t, u)))
    return x[:max(1, cap)]


def gen_mu_tiny(rng, cfg, cap):
    """Finite N: the running total comes within 1e-9..1e-12 of N t without reaching it, so the null conditional mean is
    tiny but strictly positive (nothing is singular there) - then more draws."""
    u, t = cfg["u"], cfg["t"]
    N = cfgN(cfg)
    if not math.isfinite(N) or N < 3:
        return None
    target = N * t
    x, S = [], 0.0
    while len(x) < N - 2 and target - S > u:
        x.append(u)
        S += u
    gap = rng.choice((1e-9, 1e-10, 3e-12, 1e-8))
    last = target - S - gap
    if not (0 <= last <= u) or len(x) >= N - 1:
        return None
    x.append(last)
    for _ in range(rng.randint(1, 2)):
        if len(x) < N:
            x.append(0.0)
    return x[:cap]


def gen_early_wins_census(rng, cfg):
    """Finite N, composite null far below t: a few early draws above the null mean (an adaptive bet wins), then zeros all
    the way to the census, so that the null conditional mean climbs above u while the statistic is still above 1."""
    u, t = cfg["u"], cfg["t"]
    N = cfgN(cfg)
    if not math.isfinite(N) or N < 6:
        return None
    k = rng.randint(1, 4)
    x = [rng.choice((2 * t, u, u / 2, 1.5 * t)) for _ in range(k)]
    x = [min(u, v) for v in x]
    if sum(x) > N * t:
        return None
    return x + [0.0] * (N - k)


def gen_sample(rng, cfg, stratum=None, n_max=12, nondyadic=0.0):
    """A non-empty sample in [0,u] no longer than the population; returns (stratum, list of floats)."""
    u, t = cfg["u"], cfg["t"]
    N = cfgN(cfg)
    finite = math.isfinite(N)
    cap = N if finite else n_max
    if nondyadic and rng.random() < nondyadic:
        r = rng.random()
        if r < 0.3:
            return "near_t_then_extreme", gen_near_t(rng, cfg, cap if finite else n_max)
        if r < 0.4:
            y = gen_mu_tiny(rng, cfg, cap)
            if y:
                return "mu_tiny_positive", y
        return "nondyadic_runs", gen_nondyadic(rng, u, cap if finite else max(n_max, 40))
    st = stratum or rng.choice(SAMPLE_STRATA)
    grid = [0.0, u / 4, u / 2, 3 * u / 4, u, t]
    grid = [g for g in grid if 0 <= g <= u]
    n = rng.randint(1, cap)
    if st == "len1":
        x = [rng.choice(grid)]
    elif st == "all_zero":
        x = [0.0] * n
    elif st == "all_u":
        x = [u] * n
    elif st == "all_t":
        x = [t] * n
    elif st == "alternating":
        a = rng.choice((0.0, u))
        x = [a if i % 2 == 0 else u - a for i in range(n)]
    elif st == "census":
        x = [rng.choice(grid) for _ in range(cap)]
    elif st == "mostly_one_value":
        base = rng.choice((u / 2, t, u))
        x = [base if rng.random() < 0.85 else rng.choice((0.0, u / 4, u)) for _ in range(n)]
    elif st in ("exceed_first", "exceed_middle", "exceed_last", "m_to_0", "m_to_u", "m_above_u", "m_below_0") and finite:
        x = _boundary_sample(rng, st, u, t, N, grid)
    else:
        x = [rng.choice(grid) if rng.random() < 0.7 else dyadic(rng, 0, u, 6) for _ in range(n)]
        st = "random" if st not in ("random",) else st
    x = [float(min(max(v, 0.0), u)) for v in x][:cap]
    if not x:
        x = [t]
    return st, x


def _boundary_sample(rng, st, u, t, N, grid):
    """Samples that reach the boundary regimes named in C11 (finite N)."""
    Nt = N * t
    x = []
    if st.startswith("exceed"):
        # running total exceeds N t at the first / a middle / the last draw
        where = {"exceed_first": 0, "exceed_middle": rng.randint(0, max(0, N - 1)), "exceed_last": N - 1}[st]
        for j in range(N):
            if j < where:
                room = Nt - sum(x)
                cand = [g for g in grid if g <= room - 0 and sum(x) + g <= Nt]
                x.append(rng.choice(cand) if cand else 0.0)
            elif j == where:
                x.append(u)
                if sum(x) <= Nt:  # cannot exceed yet: keep pushing
                    where += 1
            else:
                if rng.random() < 0.5:
                    break
                x.append(rng.choice(grid))
        return x[:N]
    target = {"m_to_0": 0.0, "m_below_0": 0.0, "m_to_u": u, "m_above_u": u}[st]
    # walk with the extreme value that moves m towards the target until it is reached / passed
    for j in range(N):
        rem = N - j
        m = (Nt - sum(x)) / rem
        if st == "m_to_0" and m <= 0:
            break
        if st == "m_below_0" and m < 0:
            break
        if st == "m_to_u" and m >= u:
            break
        if st == "m_above_u" and m > u:
            break
        if target == 0.0:
            # take the largest grid value that does not overshoot below 0 (for m_to_0), else u
            room = Nt - sum(x)
            cand = [g for g in grid if g <= room] if st == "m_to_0" else [u]
            x.append(max(cand) if cand else 0.0)
        else:
            x.append(0.0)
    # a few more draws after the boundary was reached
    extra = rng.randint(0, 3)
    for _ in range(extra):
        if len(x) >= N:
            break
        x.append(rng.choice(grid))
    return x[:N] if x else [0.0]


def ref_mu(x, N, t):
    """Null conditional means mu_j = (N t - S_{j-1})/(N-j+1) (finite N) or t, as Python floats."""
    if not math.isfinite(N):
        return [t] * len(x)
    out, S = [], 0.0
    for j, v in enumerate(x, start=1):
        out.append((N * t - S) / (N - j + 1))
        S += v
    return out


LONG_PATTERNS = ("all_t", "all_half_u", "mostly_u", "mostly_0", "mix", "alternate", "u_then_0", "0_then_u")


def gen_long(rng, combo):
    """A long sample (hundreds to thousands of draws, as real audits have) described compactly: (cfg, descriptor).
    Bounds up to 10 (a super-majority with a small required share) so that products of u's leave the double range."""
    u = rng.choice((2.0, 4.0, 1.5, 1.0, 0.75, 10.0, 1.0625))
    cfg = gen_cfg(rng, combo=combo, u=u, t=0.5, n_max=30)
    n = rng.choice((600, 1200, 2500))
    if cfg["N"] != "inf":
        cfg["N"] = rng.choice((n, n + 1, 2 * n, 10 * n))
    cfg.pop("N_warm", None)
    if cfg["N"] != "inf" and rng.random() < 0.15:
        # a small null mean (t = 1/64) in a large population: a run of u's overflows the product, a 0 follows, more u's
        # bring the total to N t EXACTLY, then one more positive draw takes it beyond
        T = rng.randint(200, 260)
        cfg["u"], cfg["t"], cfg["N"] = 1.0, 2.0 ** -6, 64 * T
        for k_ in ("u_built", "int_dtype", "float_dtype", "kw_built"):
            cfg.pop(k_, None)
        if "eta" in cfg["kw"]:
            cfg["kw"]["eta"] = rng.choice((0.5, 0.25, 0.75))
        if "lam" in cfg["kw"]:
            cfg["kw"]["lam"] = rng.choice((0.5, 1.0))
        return cfg, {"pattern": "overflow_zero_exact_total_then_more", "n": T + 2, "a": rng.randint(175, T - 5),
                     "last": rng.choice((1.0, 0.5)), "seed": 0}
    return cfg, {"pattern": rng.choice(LONG_PATTERNS), "n": n, "seed": rng.randrange(10 ** 9)}


def expand_long(desc, cfg):
    import random as _r
    r = _r.Random(desc["seed"])
    u, t, n, pat = cfg["u"], cfg["t"], desc["n"], desc["pattern"]
    if pat == "overflow_zero_exact_total_then_more":
        T = n - 2
        return [u] * desc["a"] + [0.0] + [u] * (T - desc["a"]) + [desc["last"]]
    if pat == "all_t":
        return [t] * n
    if pat == "all_half_u":
        return [u / 2] * n
    if pat == "mostly_u":
        return [u if r.random() < 0.9 else 0.0 for _ in range(n)]
    if pat == "mostly_0":
        return [0.0 if r.random() < 0.9 else u for _ in range(n)]
    if pat == "mix":
        return [r.choice((0.0, t, u / 2, u)) for _ in range(n)]
    if pat == "alternate":
        return [(0.0, u)[i % 2] for i in range(n)]
    if pat == "u_then_0":
        return [u] * (n // 2) + [0.0] * (n - n // 2)
    return [0.0] * (n // 2) + [u] * (n - n // 2)


def gen_exact_hit_then_nondyadic(rng, cfg):
    """Finite population, u >= 1: 0/1 draws whose running total reaches N t EXACTLY (null conditional mean exactly 0)
    when 3 or 4 cards are left, then a 0, then a value that is not a dyadic rational, then a 0.  Rounding in any
    re-association of the running totals shows up here (a mean that should be < 0 comes out as +1e-17)."""
    if cfg["N"] == "inf" or cfg["u"] < 1:
        return None
    N = rng.choice((8, 16, 32, 64))
    cfg["N"], cfg["t"] = N, 0.5
    cfg.pop("N_warm", None)
    if "eta" in cfg["kw"] and not 0.5 < cfg["kw"]["eta"] < cfg["u"]:
        cfg["kw"]["eta"] = (0.5 + cfg["u"]) / 2
    k = N - rng.choice((3, 4))
    ones, zeros = N // 2, k - N // 2
    body = [1.0] * (ones - 1) + [0.0] * zeros
    rng.shuffle(body)
    v = rng.choice((0.4, 0.1, 0.7, 0.3, 0.55, 0.95, 0.15))
    x = body + [1.0, 0.0, v, 0.0]
    return x[: N]


def gen_mean_reaches_u(rng, cfg):
    """Finite population with an upper bound that is NOT a dyadic rational (u = 2/(2-v), 4/3, 1.2: what comparison audits
    have): observations 0 and u whose running total brings the null conditional mean to u (exactly, or within rounding)
    when r cards are left, followed by up to r observations equal to u.  From there on the conditional mean is u only up
    to the rounding of N t - S, which drifts by a few ulps over the run."""
    if cfg["N"] == "inf":
        return None
    u = rng.choice((4 / 3, 1.2, 2 / 1.9, 2 / 1.7, 1.1, 0.7, 2 / 1.95, 1.3))
    r = rng.randint(2, 30)
    k = rng.randint(0, 6)
    z = rng.randint(1, 40)
    N = r + k + z
    cfg["u"], cfg["N"], cfg["t"] = u, N, (r + k) * u / N
    for key in ("N_warm", "u_built", "int_dtype", "float_dtype", "N_repr"):
        cfg.pop(key, None)
    if "eta" in cfg["kw"]:
        cfg["kw"]["eta"] = cfg["t"] + (u - cfg["t"]) * rng.choice((0.25, 0.5, 0.75))
    if "lam" in cfg["kw"]:
        cfg["kw"]["lam"] = (1 / u) * rng.choice((0.25, 0.5, 1.0))
    body = [u] * k + [0.0] * z
    rng.shuffle(body)
    return body + [u] * rng.randint(max(1, r - 3), r)


def gen_exceed_by_ulps(rng, cfg):
    """Finite population, u >= 1, t = 1/2: exactly representable draws whose running total passes N t by 2^-50 or 2^-51
    (really passes it: every value is an exact double and the partial sums are exact), followed by one to three more
    draws.  The null conditional mean is then negative but within the absolute tolerance the code uses for 'mean is 0'."""
    if cfg["N"] == "inf" or cfg["u"] < 1:
        return None
    N = rng.choice((8, 10, 16, 20))
    cfg["N"], cfg["t"] = N, 0.5
    for k in ("N_warm", "int_dtype", "float_dtype"):
        cfg.pop(k, None)
    if "eta" in cfg["kw"] and not 0.5 < cfg["kw"]["eta"] < cfg["u"]:
        cfg["kw"]["eta"] = (0.5 + cfg["u"]) / 2
    tail = rng.randint(1, 3)
    last = rng.choice((0.5, 0.25, 1.0))
    need = N * 0.5 - last           # total of the body
    n_body = N - tail - 1
    ones = int(need)
    if ones + (1 if need != ones else 0) > n_body:
        return None
    body = [1.0] * ones + ([need - ones] if need != ones else [])
    body += [0.0] * (n_body - len(body))
    rng.shuffle(body)
    return body + [last + 2.0 ** -rng.choice((50, 51))] + [rng.choice((0.0, 0.0, 0.5)) for _ in range(tail)]


def in_domain(cfg, x):
    """Documented domain of the test methods (DESIGN C11 F)."""
    N = cfgN(cfg)
    u = cfg["u"]
    if len(x) < 1 or (math.isfinite(N) and len(x) > N):
        return False
    if any((v < 0 or v > u) for v in x):
        return False
    if cfg["test"] == "wald_sprt" and math.isfinite(N) and not cfg.get("random_order", True):
        return False
    if cfg["test"] in ("kaplan_markov", "kaplan_wald") and math.isfinite(N):
        return False
    return True
