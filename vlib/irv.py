"""Reference model for IRV / RAIRE, written from the definitions (not from the code under test).

A ballot is a tuple of distinct candidate names in preference order (possibly empty).  A profile is a list of ballots
(None = the card does not contain the contest).

  NEB(w, l)    "w is not eliminated before l": tally_w = #ballots ranking w first,
               tally_l = #ballots that mention l and either do not mention w or rank l above w.
  NEN(w, l, E) "with exactly E eliminated, w is not eliminated next": tallies = first preferences among the
               candidates not in E.
  An elimination order lists the candidates from first eliminated to winner.
  NEB(w,l) contradicts an order iff w is eliminated before l in it.
  NEN(w,l,E) contradicts an order iff its first |E| eliminated are exactly E and the next eliminated is w.
"""
import itertools
import random
from collections import Counter


def neb_tallies(counter, w, l):
    tw = tl = 0
    for b, k in counter.items():
        if b and b[0] == w:
            tw += k
        if l in b and (w not in b or b.index(l) < b.index(w)):
            tl += k
    return tw, tl


def first_pref(b, eliminated):
    for c in b:
        if c not in eliminated:
            return c
    return None


def nen_tallies(counter, w, l, E):
    tw = tl = 0
    for b, k in counter.items():
        f = first_pref(b, E)
        if f == w:
            tw += k
        elif f == l:
            tl += k
    return tw, tl


def all_true_assertions(cands, counter, tot, asn_func):
    """Every true NEB / NEN assertion with its difficulty: dict key -> (tally_w, tally_l, difficulty).
    key = ("NEB", w, l) or ("NEN", w, l, frozenset(E))."""
    out = {}
    for w in cands:
        for l in cands:
            if w == l:
                continue
            tw, tl = neb_tallies(counter, w, l)
            if tw > tl:
                out[("NEB", w, l)] = (tw, tl, asn_func(tw, tl, tot - (tw + tl), tot))
    others_cache = {}
    for w in cands:
        for l in cands:
            if w == l:
                continue
            rest = [c for c in cands if c not in (w, l)]
            for r in range(len(rest) + 1):
                for E in itertools.combinations(rest, r):
                    E = frozenset(E)
                    tw, tl = nen_tallies(counter, w, l, E)
                    if tw > tl:
                        out[("NEN", w, l, E)] = (tw, tl, asn_func(tw, tl, tot - (tw + tl), tot))
    return out


def contradicts(key, order):
    if key[0] == "NEB":
        return order.index(key[1]) < order.index(key[2])
    E = key[3]
    k = len(E)
    return frozenset(order[:k]) == E and order[k] == key[1]


def index_assertions(keys_with_diff):
    """-> (neb: {(w,l): min difficulty}, nen: {(E, w): min difficulty})"""
    neb, nen = {}, {}
    for key, d in keys_with_diff:
        if key[0] == "NEB":
            k = (key[1], key[2])
            neb[k] = min(neb.get(k, float("inf")), d)
        else:
            k = (key[3], key[1])
            nen[k] = min(nen.get(k, float("inf")), d)
    return neb, nen


def cheapest_contradiction(order, neb, nen):
    """Smallest difficulty among the indexed assertions contradicting `order` (inf if none)."""
    best = float("inf")
    n = len(order)
    for i in range(n):
        for j in range(i + 1, n):
            d = neb.get((order[i], order[j]))
            if d is not None and d < best:
                best = d
    for k in range(n - 1):
        d = nen.get((frozenset(order[:k]), order[k]))
        if d is not None and d < best:
            best = d
    return best


def alt_orders(cands, winner):
    for o in itertools.permutations(cands):
        if o[-1] != winner:
            yield o


def uncontradicted_orders(cands, winner, keys):
    neb, nen = index_assertions((k, 0.0) for k in keys)
    return [o for o in alt_orders(cands, winner) if cheapest_contradiction(o, neb, nen) == float("inf")]


def minmax_difficulty(cands, winner, true_assertions):
    """min over sufficient sets of true assertions of the largest difficulty = max over alternative orders of the
    cheapest contradicting assertion; inf if some order cannot be contradicted (audit not possible)."""
    neb, nen = index_assertions((k, v[2]) for k, v in true_assertions.items())
    worst = 0.0
    witness = None
    for o in alt_orders(cands, winner):
        d = cheapest_contradiction(o, neb, nen)
        if d > worst:
            worst, witness = d, o
            if d == float("inf"):
                break
    return worst, witness


def irv_order(cands, counter, rng=None):
    """One IRV elimination order (ties broken by candidate order, or randomly)."""
    standing = list(cands)
    order = []
    while len(standing) > 1:
        E = set(order)
        tal = {c: 0 for c in standing}
        for b, k in counter.items():
            f = first_pref(b, E)
            if f is not None:
                tal[f] += k
        lo = min(tal.values())
        tied = [c for c in standing if tal[c] == lo]
        c = rng.choice(tied) if rng else tied[0]
        order.append(c)
        standing.remove(c)
    return order + standing


# ---- profile generator -------------------------------------------------------------------------------------
def gen_profile(rng, n_max=5, n_min=2):
    n = rng.randint(n_min, n_max)
    cands = [chr(ord("A") + i) for i in range(n)]
    nb = rng.choice((3, 5, 8, 12, 20, 30, 45, 60, 120))
    style = rng.choice(("random", "random", "structured", "tie_first_round", "tie_last_round", "symmetric", "landslide"))
    w = [rng.random() ** 2 + 0.02 for _ in cands]
    ballots = []

    def one():
        k = rng.choice((0, 1, 1, 2, 2, 3, n, n))
        k = min(k, n)
        pool = cands[:]
        b = []
        ww = w[:]
        for _ in range(k):
            c = rng.choices(pool, [ww[cands.index(x)] for x in pool])[0]
            b.append(c)
            pool.remove(c)
        return tuple(b)

    if style in ("random", "landslide"):
        if style == "landslide":
            w[0] = 5.0
        ballots = [one() for _ in range(nb)]
    elif style == "structured":
        # a few distinct ballot signatures with multiplicities
        sigs = [one() for _ in range(rng.randint(2, 6))]
        ballots = [rng.choice(sigs) for _ in range(nb)]
    elif style == "tie_first_round":
        per = max(1, nb // n)
        for c in cands:
            ballots += [(c,) + tuple(rng.sample([x for x in cands if x != c], rng.randint(0, n - 1)))] * per
    elif style == "tie_last_round":
        a, b = cands[0], cands[1]
        per = max(1, nb // 2)
        ballots = [(a,)] * per + [(b,)] * per + [one() for _ in range(rng.randint(0, 3))]
    else:  # symmetric: all cyclic rotations equally often
        per = max(1, nb // n)
        for i in range(n):
            ballots += [tuple(cands[i:] + cands[:i])] * per
    prof = [b if rng.random() > 0.04 else None for b in ballots]   # a few cards lack the contest
    rng.shuffle(prof)
    return cands, prof


def counter_of(profile):
    return Counter(b for b in profile if b is not None)
