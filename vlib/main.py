"""./check <ID> --tier quick|thorough [--seed N] [--jobs N] [--replay FILE]

exit 0  property held on everything explored (KNOWN-FINDING lines possible)
exit 1  a violation no open known finding explains: `VIOLATION property=<id> replay=<path>`
exit 2  inconclusive (a deciding monitor never ran, a shard died or hit the watchdog, wrong import)
"""
import argparse
import importlib
import json
import os
import subprocess
import sys
import tempfile
import time
from concurrent.futures import ThreadPoolExecutor

from . import env, findings
from .rec import Recorder, jsonable, merge_reports

VERIF = env.VERIF


def load_module(pid):
    return importlib.import_module(f"checks.{pid.lower()}")


def run_worker(pid, spec, timeout):
    """One shard in its own interpreter (never multiprocessing.Pool: a dying child would hang it)."""
    fd, spec_path = tempfile.mkstemp(prefix=f"{pid}-spec-", suffix=".json", dir=os.path.join(VERIF, ".scratch"))
    out_path = spec_path.replace("-spec-", "-out-")
    with os.fdopen(fd, "w") as f:
        json.dump(spec, f)
    t0 = time.time()
    try:
        p = subprocess.run([sys.executable, "-B", "-m", "vlib.worker", pid, spec_path, out_path], cwd=VERIF,
                           capture_output=True, text=True, timeout=timeout)
        if p.returncode != 0 or not os.path.exists(out_path):
            return {"error": f"shard {spec.get('shard')} exit {p.returncode}: {(p.stderr or p.stdout)[-1500:]}"}
        with open(out_path) as f:
            rep = json.load(f)
        rep["wall_s"] = time.time() - t0
        return rep
    except subprocess.TimeoutExpired:
        return {"error": f"shard {spec.get('shard')} hit the {timeout}s watchdog"}
    finally:
        for pth in (spec_path, out_path):
            try:
                os.remove(pth)
            except OSError:
                pass


def main(argv=None):
    ap = argparse.ArgumentParser()
    ap.add_argument("pid")
    ap.add_argument("--tier", default=os.environ.get("VERIF_TIER", "quick"), choices=["quick", "thorough"])
    ap.add_argument("--seed", type=int, default=int(os.environ.get("VERIF_SEED", "0") or 0))
    ap.add_argument("--jobs", type=int, default=int(os.environ.get("VERIF_JOBS", "0") or 0))
    ap.add_argument("--replay")
    a = ap.parse_args(argv)
    pid = a.pid.upper()
    t0 = time.time()
    os.makedirs(os.path.join(VERIF, ".scratch"), exist_ok=True)
    os.makedirs(os.path.join(VERIF, "evidence"), exist_ok=True)
    try:
        env.setup()
    except Exception as e:
        print(f"INCONCLUSIVE property={pid} reason=import:{e}")
        return 2
    mod = load_module(pid)

    if a.replay:
        return replay(pid, mod, a.replay)

    jobs = a.jobs or min(16, os.cpu_count() or 4)
    specs = mod.plan(a.tier, a.seed)
    for i, s in enumerate(specs):
        s.setdefault("shard", i)
        s["tier"] = a.tier
        s["seed"] = a.seed
    timeout = getattr(mod, "SHARD_TIMEOUT", {"quick": 900, "thorough": 7200})[a.tier]
    with ThreadPoolExecutor(max_workers=jobs) as ex:
        reports = list(ex.map(lambda s: run_worker(pid, s, timeout), specs))
    errors = [r["error"] for r in reports if "error" in r]
    good = [r for r in reports if "error" not in r]
    merged = merge_reports(good)
    if hasattr(mod, "finalize"):
        rec = Recorder(pid)
        mod.finalize(merged, a.tier, rec)
        merged = merge_reports([dict(merged, hashes=sorted(merged["hashes"]), counters=dict(merged["counters"])),
                                rec.report()])

    # ---- classify violations against the committed known-findings file ---------------------
    kf = findings.load(pid)
    unexplained, known_hit = [], {}
    for sig, v in sorted(merged["violations"].items()):
        entry = findings.match(kf, v)
        if entry is not None:
            known_hit.setdefault(entry["id"], (entry, 0))
            known_hit[entry["id"]] = (entry, known_hit[entry["id"]][1] + v["count"])
        else:
            unexplained.append(v)
    for kid, (entry, n) in sorted(known_hit.items()):
        print(f"KNOWN-FINDING: property={pid} {entry['text']} [{kid}, seen {n}x this run]")

    # ---- inconclusive? ---------------------------------------------------------------------
    reasons = list(errors)
    for key in getattr(mod, "REQUIRED", []):
        if merged["counters"].get(key, 0) <= 0:
            reasons.append(f"deciding monitor/stratum '{key}' observed nothing")
    if merged["evaluations"] == 0:
        reasons.append("no case executed")
    for key, v in merged["counters"].items():
        if key.startswith("contract_internal_error:") and v > 0:
            reasons.append(f"{key}={v}: a monitor raised internally on the generated workload")

    # ---- evidence --------------------------------------------------------------------------
    wall = time.time() - t0
    cov = {
        "evaluations": int(merged["evaluations"]),
        "distinct_nontrivial": len(merged["hashes"]),
        "rule": mod.RULE,
        "samples": merged["samples"][:4],
        "counters": {k: int(v) if float(v).is_integer() else v for k, v in sorted(merged["counters"].items())},
        "shards": len(specs),
        "shards_failed": len(errors),
        "known_findings_matched": sorted(known_hit),
        "tree": env.repo_state(),
    }
    if getattr(mod, "EXHAUSTIVE", None):
        cov["exhaustive_subspaces"] = mod.EXHAUSTIVE
    verdict = "violated" if unexplained else ("inconclusive" if reasons else "held_on_observed")
    cov["verdict"] = verdict
    if reasons:
        cov["inconclusive_reasons"] = reasons[:10]
    ev = {
        "property_id": pid, "tier": a.tier, "seed": a.seed, "level": "exploration", "coverage": cov,
        "assumptions": list(getattr(mod, "ASSUMPTIONS", [])), "wall_s": round(wall, 2),
        "violations": int(sum(v["count"] for v in unexplained)),
    }
    # evidence committed under /verif/evidence must come from /repo itself; runs against a scratch copy
    # (SHANGRLA_REPO=...) write theirs under .scratch instead
    evdir = os.path.join(VERIF, "evidence") if env.REPO == "/repo" else os.path.join(VERIF, ".scratch", "evidence-alt")
    os.makedirs(evdir, exist_ok=True)
    with open(os.path.join(evdir, f"{pid}.json"), "w") as f:
        json.dump(jsonable(ev), f, indent=1, sort_keys=True)
        f.write("\n")

    # ---- report ----------------------------------------------------------------------------
    shown = {k: v for k, v in sorted(merged["counters"].items())}
    print(f"[{pid} {a.tier} seed={a.seed}] evaluations={merged['evaluations']} "
          f"distinct_nontrivial={len(merged['hashes'])} wall={wall:.1f}s")
    print("  observed: " + ", ".join(f"{k}={v}" for k, v in shown.items()))
    if unexplained:
        rdir = os.path.join(VERIF, "replay" if env.REPO == "/repo" else os.path.join(".scratch", "replay-alt"), pid)
        os.makedirs(rdir, exist_ok=True)
        for v in unexplained:
            name = "".join(ch if ch.isalnum() or ch in "._-" else "_" for ch in f"{v['monitor']}-{v['mechanism']}")[:120]
            path = os.path.join(rdir, name + ".json")
            w = v["witnesses"][0]
            with open(path, "w") as f:
                json.dump({"property": pid, "monitor": v["monitor"], "mechanism": v["mechanism"],
                           "count": v["count"], "case": w["case"], "detail": w["detail"],
                           "tier": a.tier, "seed": a.seed, "tree": env.repo_state()}, f, indent=1)
            print(f"  violation monitor={v['monitor']} mechanism={v['mechanism']} count={v['count']} "
                  f"detail={json.dumps(w['detail'])[:400]}")
            print(f"VIOLATION property={pid} replay={path}")
        return 1
    if reasons:
        for r in reasons[:10]:
            print(f"INCONCLUSIVE property={pid} reason={r}")
        return 2
    print(f"HELD property={pid} on everything observed")
    return 0


def replay(pid, mod, path):
    with open(path) as f:
        r = json.load(f)
    rec = Recorder(pid)
    if hasattr(mod, "install"):
        mod.install(rec)
    rec.current_case = r["case"]
    if isinstance(r["case"], dict) and r["case"].get("kind") == "suite":
        from . import contracts, suite
        contracts.unwrap_all()
        suite.run_suite(f"checks.{pid.lower()}", rec)   # the witness came from the repository's own tests: run them again
    else:
        mod.run_case(r["case"], rec)
    hit = [v for v in rec.violations.values()]
    same = [v for v in hit if v["monitor"] == r.get("monitor") and v["mechanism"] == r.get("mechanism")]
    for v in hit:
        print(f"  replay: monitor={v['monitor']} mechanism={v['mechanism']} detail={json.dumps(v['witnesses'][0]['detail'])[:600]}")
    if hit:
        kf = findings.load(pid)
        if all(findings.match(kf, v) is not None for v in hit):
            for v in hit:
                print(f"KNOWN-FINDING: property={pid} {findings.match(kf, v)['text']}")
            return 0
        print(f"VIOLATION property={pid} replay={path}" + ("" if same else " (different signature than recorded)"))
        return 1
    print(f"NOT-REPRODUCED property={pid} replay={path}: the recorded case now satisfies the property")
    return 0


if __name__ == "__main__":
    sys.exit(main())
