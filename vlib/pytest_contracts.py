"""pytest plugin: run the repository's own test-suite with one check's contracts armed (DESIGN 6.4).

  VERIF_CONTRACTS_MODULE=checks.c11  VERIF_CONTRACTS_OUT=/path/report.json  pytest -p vlib.pytest_contracts ...
A contract that fires there is either too strict or a defect the tests do not assert: the witness is reported, never hidden.
"""
import importlib
import json
import os

_rec = None


def pytest_configure(config):
    global _rec
    from vlib import env
    from vlib.rec import Recorder
    env.setup()
    mod = importlib.import_module(os.environ["VERIF_CONTRACTS_MODULE"])
    _rec = Recorder(os.environ["VERIF_CONTRACTS_MODULE"].split(".")[-1].upper())
    _rec.current_case = {"kind": "suite", "note": "call made by the repository's own test-suite"}
    mod.install(_rec)


def pytest_runtest_setup(item):
    if _rec is not None:
        _rec.current_case = {"kind": "suite", "test": item.nodeid}


def pytest_sessionfinish(session, exitstatus):
    if _rec is None:
        return
    from vlib.rec import jsonable
    rep = _rec.report()
    rep["exitstatus"] = int(exitstatus)
    rep["testscollected"] = int(getattr(session, "testscollected", 0))
    rep["testsfailed"] = int(getattr(session, "testsfailed", 0))
    with open(os.environ["VERIF_CONTRACTS_OUT"], "w") as f:
        json.dump(jsonable(rep), f)
