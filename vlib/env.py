"""Locate the repository under test and make sure `shangrla` is imported from its working tree."""
import os
import subprocess
import sys
import warnings

VERIF = os.path.dirname(os.path.dirname(os.path.abspath(__file__)))
REPO = os.path.abspath(os.environ.get("SHANGRLA_REPO", "/repo"))
_done = False


class WrongImport(RuntimeError):
    pass


def setup():
    """Put the repo first on sys.path, import shangrla, check where it came from."""
    global _done
    if _done:
        return
    sys.dont_write_bytecode = True
    warnings.simplefilter("ignore")
    if VERIF not in sys.path:
        sys.path.insert(0, VERIF)
    if REPO in sys.path:
        sys.path.remove(REPO)
    sys.path.insert(0, REPO)
    import shangrla  # noqa

    f = os.path.abspath(getattr(shangrla, "__file__", None) or list(shangrla.__path__)[0])
    if not f.startswith(REPO + os.sep):
        raise WrongImport(f"shangrla imported from {f}, not from {REPO}")
    _done = True


def repo_state():
    """HEAD and a short hash of the dirty diff of the tree actually exercised."""
    try:
        head = subprocess.run(["git", "-C", REPO, "rev-parse", "--short", "HEAD"], capture_output=True,
                              text=True, timeout=20).stdout.strip()
        diff = subprocess.run(["git", "-C", REPO, "diff", "HEAD", "--", "shangrla"], capture_output=True,
                              timeout=20).stdout
        import hashlib
        return {"repo": REPO, "head": head or "unknown",
                "dirty": hashlib.sha1(diff).hexdigest()[:10] if diff else ""}
    except Exception as e:  # not a git checkout (scratch copy)
        return {"repo": REPO, "head": "n/a", "dirty": "", "note": str(e)[:80]}


def scratch_dir(tag):
    d = os.path.join(VERIF, ".scratch", f"{tag}-{os.getpid()}")
    os.makedirs(d, exist_ok=True)
    return d
