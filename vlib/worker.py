"""Run one shard of a check in this interpreter:  python -m vlib.worker <ID> <spec.json> <out.json>"""
import importlib
import json
import sys

from . import env
from .rec import Recorder, jsonable


def main():
    pid, spec_path, out_path = sys.argv[1:4]
    env.setup()
    with open(spec_path) as f:
        spec = json.load(f)
    mod = importlib.import_module(f"checks.{pid.lower()}")
    rec = Recorder(pid)
    if hasattr(mod, "install"):
        mod.install(rec)  # contracts armed before any library object is built
    mod.run_shard(spec, rec)
    with open(out_path, "w") as f:
        json.dump(jsonable(rec.report()), f)


if __name__ == "__main__":
    main()
