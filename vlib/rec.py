"""Recorder: what a shard observed.  Counters, distinct non-trivial cases, samples, violations."""
import hashlib
import json
import math
import os
import traceback
from collections import Counter

from . import env

MAX_WITNESS_PER_SIG = 2
MAX_SAMPLES = 4


def jsonable(o):
    """Canonical JSON-safe form (numpy scalars/arrays, sets, tuples, non-finite floats)."""
    try:
        import numpy as np
    except Exception:  # pragma: no cover
        np = None
    if isinstance(o, dict):
        return {str(k): jsonable(v) for k, v in o.items()}
    if isinstance(o, (list, tuple)):
        return [jsonable(v) for v in o]
    if isinstance(o, (set, frozenset)):
        return sorted((jsonable(v) for v in o), key=lambda v: json.dumps(v, sort_keys=True))
    if np is not None:
        if isinstance(o, np.ndarray):
            return jsonable(o.tolist())
        if isinstance(o, np.bool_):
            return bool(o)
        if isinstance(o, np.integer):
            return int(o)
        if isinstance(o, np.floating):
            o = float(o)
    if isinstance(o, float):
        if math.isnan(o):
            return "nan"
        if math.isinf(o):
            return "inf" if o > 0 else "-inf"
        return o
    if isinstance(o, (str, int, bool)) or o is None:
        return o
    return repr(o)


def unjson_float(v):
    if v == "nan":
        return float("nan")
    if v == "inf":
        return float("inf")
    if v == "-inf":
        return float("-inf")
    return v


def case_hash(case):
    return hashlib.blake2b(json.dumps(jsonable(case), sort_keys=True).encode(), digest_size=6).hexdigest()


class LibraryException(Exception):
    """An exception raised from inside the shangrla package on an in-domain input."""


def library_frame(tb):
    """Innermost traceback frame that lies in the repository's shangrla package, or None."""
    found = None
    for fs in traceback.extract_tb(tb):
        fn = os.path.abspath(fs.filename)
        if fn.startswith(os.path.join(env.REPO, "shangrla") + os.sep):
            found = fs
    return found


class Recorder:
    def __init__(self, prop):
        self.prop = prop
        self.evaluations = 0
        self.counters = Counter()
        self.hashes = set()
        self.samples = []
        self.violations = {}  # sig -> {"monitor","mechanism","count","witnesses":[...]}
        self.current_case = None

    # ---- coverage -------------------------------------------------------------------------
    def case(self, case, nontrivial=True, sample=None):
        """Register one generated case (an execution of the code under test)."""
        self.evaluations += 1
        self.current_case = case
        if nontrivial:
            self.hashes.add(case_hash(case))
            if len(self.samples) < MAX_SAMPLES:
                self.samples.append(jsonable(sample if sample is not None else case))

    def nontrivial(self, case):
        self.hashes.add(case_hash(case))

    def count(self, key, n=1):
        self.counters[key] += n

    # ---- verdicts -------------------------------------------------------------------------
    def violation(self, monitor, mechanism, detail, case=None):
        sig = f"{monitor}|{mechanism}"
        v = self.violations.setdefault(sig, {"monitor": monitor, "mechanism": mechanism, "count": 0,
                                             "witnesses": []})
        v["count"] += 1
        if len(v["witnesses"]) < MAX_WITNESS_PER_SIG:
            v["witnesses"].append({"case": jsonable(case if case is not None else self.current_case),
                                   "detail": jsonable(detail)})

    def guard(self, monitor, fn, *a, **k):
        """Call library code; an exception raised inside the shangrla package becomes a violation
        (kind `exception`), anything else (a harness bug) propagates.  Returns (ok, value)."""
        try:
            return True, fn(*a, **k)
        except Exception as e:
            fs = library_frame(e.__traceback__)
            if fs is None:
                raise
            mech = f"exception:{type(e).__name__}@{fs.name}"
            self.violation(monitor, mech, {"exception": repr(e)[:300], "where": f"{os.path.basename(fs.filename)}:{fs.lineno} {fs.name}",
                                           "traceback": traceback.format_exc()[-1500:]})
            self.count("library_exceptions")
            return False, None

    def report(self):
        return {
            "property": self.prop,
            "evaluations": self.evaluations,
            "counters": dict(self.counters),
            "hashes": sorted(self.hashes),
            "samples": self.samples,
            "violations": self.violations,
        }


def merge_reports(reports):
    out = {"evaluations": 0, "counters": Counter(), "hashes": set(), "samples": [], "violations": {}}
    for r in reports:
        out["evaluations"] += r["evaluations"]
        out["counters"].update(r["counters"])
        out["hashes"].update(r["hashes"])
        for s in r["samples"]:
            if len(out["samples"]) < MAX_SAMPLES:
                out["samples"].append(s)
        for sig, v in r["violations"].items():
            o = out["violations"].setdefault(sig, {"monitor": v["monitor"], "mechanism": v["mechanism"],
                                                   "count": 0, "witnesses": []})
            o["count"] += v["count"]
            for w in v["witnesses"]:
                if len(o["witnesses"]) < MAX_WITNESS_PER_SIG:
                    o["witnesses"].append(w)
    return out
