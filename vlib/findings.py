"""Known findings: /verif/known_findings.txt, committed, read-only at run time.

open:  property=C10 id=KF-1 match={"monitor":"c10.continue","mechanism":"prev_not_prefix"} :: <what fails>
fixed: property=C18 <repo commit> <what failed>

Only `open:` lines suppress anything, and only a violation whose mechanism signature (computed by the check
from the witness, never from random values) equals the entry's `match`.  `fixed:` lines suppress nothing.
"""
import json
import os
import re

from . import env

PATH = os.path.join(env.VERIF, "known_findings.txt")
_open = re.compile(r"^open:\s+property=(\S+)\s+id=(\S+)\s+match=(\{.*?\})\s+::\s+(.*)$")


def load(pid):
    out = []
    if not os.path.exists(PATH):
        return out
    with open(PATH) as f:
        for line in f:
            m = _open.match(line.strip())
            if m and m.group(1) == pid:
                out.append({"id": m.group(2), "match": json.loads(m.group(3)), "text": m.group(4)})
    return out


def match(entries, v):
    for e in entries:
        if e["match"].get("monitor") == v["monitor"] and e["match"].get("mechanism") == v["mechanism"]:
            return e
    return None
