"""Run the repository's test-suite under one check's contracts and fold what the contracts saw into the recorder."""
import json
import os
import subprocess
import sys
import tempfile

from . import env


def run_suite(module_name, rec, timeout=1500):
    fd, out = tempfile.mkstemp(prefix="suite-", suffix=".json", dir=os.path.join(env.VERIF, ".scratch"))
    os.close(fd)
    e = dict(os.environ, VERIF_CONTRACTS_MODULE=module_name, VERIF_CONTRACTS_OUT=out,
             PYTHONPATH=env.VERIF + os.pathsep + env.REPO, PYTHONDONTWRITEBYTECODE="1", SHANGRLA_REPO=env.REPO)
    try:
        p = subprocess.run([sys.executable, "-B", "-m", "pytest", "-q", "-p", "no:cacheprovider", "-p", "vlib.pytest_contracts",
                            "--timeout=900"], cwd=env.REPO, env=e, capture_output=True, text=True, timeout=timeout)
        with open(out) as f:
            rep = json.load(f)
    except Exception as ex:
        rec.count("suite_run_failed")
        rec.count(f"suite_run_failed:{type(ex).__name__}")
        return
    finally:
        try:
            os.remove(out)
        except OSError:
            pass
    rec.count("suite_runs")
    rec.count("suite:tests_collected", rep.get("testscollected", 0))
    rec.count("suite:tests_failed_under_contracts", rep.get("testsfailed", 0))
    for k, v in rep["counters"].items():
        rec.count("suite:" + k, v)
    for sig, v in rep["violations"].items():
        for w in v["witnesses"]:
            rec.violation(v["monitor"], v["mechanism"], dict(w["detail"], seen_in="repository test-suite under contracts") if isinstance(w["detail"], dict) else w["detail"], w["case"])
        rec.violations[f"{v['monitor']}|{v['mechanism']}"]["count"] += max(0, v["count"] - len(v["witnesses"]))
