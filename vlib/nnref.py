"""Reference (loop) implementations of the published test statistics, written from the definitions.

ref_history(cfg, x, etas=None, lams=None) -> list of per-index expectations:
   ("eq", p)            the reported p_j must equal p
   ("any", [p1, p2..])  any of the listed values is accepted (boundary-index conventions, DESIGN C12)
   ("skip", reason)     the definition is 0/0 or x/0 here: nothing is demanded
The eta_j / lambda_j sequences are taken from the *real* estimator/bet on the same x, so that C12 does not
re-litigate C13.
"""
import math

ATOL = 2 * 2.220446049250313e-16
RTOL = 1e-6


def p_of(T):
    if T != T:
        return float("nan")
    if T <= 0:
        return 1.0 if T == 0 else min(1.0, 1.0 / T)
    if math.isinf(T):
        return 0.0
    return min(1.0, 1.0 / T)


def _near(a, b, atol=ATOL, rtol=0.0):
    return abs(a - b) <= atol + rtol * abs(b)


def mul(T, f):
    """T*f with the value the PRODUCT has when the running product has left the double range: (overflowed)*0 = 0 and
    (underflowed)*inf = inf (floating point gives nan for both)."""
    if (T == math.inf and f == 0) or (T == 0 and f == math.inf):
        return f
    return T * f


def ref_history(cfg, x, etas=None, lams=None):
    test = cfg["test"]
    u, t = cfg["u"], cfg["t"]
    N = math.inf if cfg["N"] in ("inf", None) else int(cfg["N"])
    g = cfg.get("kw", {}).get("g", 0)
    finite = math.isfinite(N)
    n = len(x)
    out = []
    if test == "kaplan_markov":
        P = 1.0
        for xi in x:
            den = xi + g
            if den == 0:
                P = math.inf
            else:
                P = mul(P, (t + g) / den)
            out.append(("eq", min(1.0, P)))
        return out
    if test == "kaplan_wald":
        T = 1.0
        for xi in x:
            T = mul(T, (1 - g) * xi / t + g)
            out.append(("eq", p_of(T)))
        return out

    # product tests with a null conditional mean
    pad = g if test == "kaplan_kolmogorov" else 0.0
    tt = t + pad
    S = 0.0          # running (padded) total before the current draw
    T = 1.0
    defined = True   # False once a factor was 0/0 or x/0 (the product is no longer defined by the formula)
    eta0 = cfg.get("kw", {}).get("eta")
    for j in range(1, n + 1):
        xi = x[j - 1] + pad
        mu = (N * tt - S) / (N - j + 1) if finite else tt
        exceeded_before = finite and S > N * tt           # mu < 0
        exceeds_now = finite and (S + xi) > N * tt
        # the factor, by the published formula
        fac = None
        try:
            if test == "kaplan_kolmogorov":
                fac = xi / mu
            elif test == "betting_mart":
                fac = 1 + lams[j - 1] * (xi - mu)
            else:
                if test == "wald_sprt":
                    e = (N * eta0 - S) / (N - j + 1) if finite else eta0
                    e = min(max(e, 0.0), u)  # the library keeps the alternative inside [0,u] (fix 68329e7)
                else:
                    e = etas[j - 1]
                fac = (xi * e / mu + (u - xi) * (u - e) / (u - mu)) / u
        except ZeroDivisionError:
            fac = None
        if fac is not None and fac != fac:
            fac = None
        if defined and fac is not None:
            T = mul(T, fac)
            if T != T:
                defined = False
        else:
            defined = False
        prod = p_of(T) if defined else None

        if exceeded_before:
            out.append(("eq", 0.0))
        elif test == "kaplan_kolmogorov" and finite and mu == 0 and xi > 0:
            # nothing is left under the null and something positive is drawn: the total now exceeds N t, p = 0, whatever
            # the product was before (also when it was 0: the factor x/0 is not a number to multiply by)
            out.append(("eq", 0.0))
        elif test != "kaplan_kolmogorov" and mu > u and not _near(mu, u, ATOL, RTOL):
            out.append(("eq", 1.0))
        elif fac is None:
            # the defining formula is 0/0 or x/0 at this index: nothing is demanded of it (DESIGN C12)
            out.append(("skip", "formula undefined at this index"))
        elif not defined:
            out.append(("skip", "product undefined since an earlier 0/0 index"))
        else:
            acc = []
            if prod is not None:
                acc.append(prod)
            boundary = _near(mu, 0.0, ATOL) or (test != "kaplan_kolmogorov" and _near(mu, u, ATOL, RTOL))
            if boundary:
                acc.append(1.0)
            vanished = defined and T < 0 and abs(T) <= 2 * ATOL
            if vanished:
                # a negative product (an over-bet) within the code's tolerance of 0: "martingale effectively vanishes;
                # p-value 1" is the library's documented convention on either side of 0 (for T >= 0 it coincides with
                # min(1, 1/T)); the formula's value is accepted as well
                acc.append(1.0)
                boundary = True
            if exceeds_now:
                acc.append(0.0)
            if test != "kaplan_kolmogorov" and mu > u:
                acc.append(1.0)
            clear_excess = exceeds_now and (S + xi) - N * tt > 1e-9 * max(1.0, N * tt)
            if j == n and clear_excess and test in ("alpha_mart", "betting_mart", "wald_sprt"):
                # the LAST observation takes the total above N t: the documented final-sample rule applies, p = 0
                # (at an earlier index the code, like the formula, only learns of it at the next draw: either is accepted)
                out.append(("eq", 0.0))
            elif not acc:
                out.append(("skip", "undefined"))
            elif len(acc) == 1 and not boundary and not exceeds_now:
                out.append(("eq", acc[0]))
            else:
                out.append(("any", acc))
        S += xi
    return out


def close(a, b, rtol=1e-9):
    if a != a or b != b:
        return False
    if a == b:
        return True
    return abs(a - b) <= rtol * max(abs(a), abs(b)) + 1e-300


def compare(history, expect, rtol=1e-9):
    """First index where the reported history contradicts the reference, or None."""
    for j, (h, e) in enumerate(zip(history, expect)):
        h = float(h)
        if e[0] == "skip":
            continue
        if e[0] == "eq":
            if not close(h, e[1], rtol):
                return j, e
        else:
            if not any(close(h, v, rtol) for v in e[1]):
                return j, e
    return None
