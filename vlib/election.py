"""Election simulator (DESIGN 3.1): generates a complete small audit as a JSON-able spec and drives it through the
library's own workflow exactly as the example notebooks do.  Used by C03 C06 C07 C08 C09 C10 (and C01's audit-level count).

spec = {
  "use_style": bool, "max_cards": int,
  "contests": {cid: {"kind": "plurality"|"supermajority"|"irv", "candidates": [...], "winner": [...], "n_winners": k,
                     "share": f|None, "risk_limit": r, "audit_type": "POLLING"|"CARD_COMPARISON"|"ONEAUDIT",
                     "test": name, "estim": name|None, "bet": name|None, "test_kwargs": {...},
                     "cards": int|None, "assertion_json": [...] (irv)}},
  "cards": [{"id": "tab-batch-k", "votes": {cid: {cand: mark}}, "tally_pool": label, "pool": bool}],
  "phantom_pool": [label|None, bool],
  "mvrs": {card index (str): {"kind": "phantom"} | {"kind": "votes", "votes": {...}}}   (absent = identical to the CVR),
  "sample_nums": {"kind": "sha256", "seed": int} | {"kind": "explicit", "nums": [...]},
}
"""
import copy
import io
import contextlib
import math

from . import irv

TRUTHY = (True, 1, "x", 5, float("nan"))   # Python truthiness decides: NaN is a mark
FALSY = (False, 0, "", None)
TESTS_FOR = {
    "CARD_COMPARISON": [("alpha_mart", "optimal_comparison", None, {}), ("alpha_mart", "shrink_trunc", None, {"d": 10, "f": 0}),
                        ("alpha_mart", "shrink_trunc", None, {"d": 100, "f": 0.25, "c": 0.25}),
                        ("betting_mart", None, "agrapa", {}), ("betting_mart", None, "fixed_bet", {"lam": 0.5}),
                        ("alpha_mart", "fixed_alternative_mean", None, {}), ("kaplan_kolmogorov", None, None, {}),
                        ("wald_sprt", None, None, {"eta": 0.75}),
                        # eta taken from a reported margin (with the default eta = u(1-eps) the first estimates do not feel f)
                        ("alpha_mart", "shrink_trunc", None, {"d": 20, "f": 0.5, "eta": 0.625, "c": 0.25})],
    "POLLING": [("alpha_mart", "shrink_trunc", None, {"d": 10, "f": 0}), ("betting_mart", None, "agrapa", {}),
                ("alpha_mart", "fixed_alternative_mean", None, {"eta": 0.625}), ("kaplan_kolmogorov", None, None, {}),
                ("kaplan_wald", None, None, {}), ("kaplan_markov", None, None, {}),
                ("betting_mart", None, "fixed_bet", {"lam": 0.5}),
                ("alpha_mart", "shrink_trunc", None, {"d": 20, "f": 0.5, "eta": 0.625, "c": 0.25})],
}
TESTS_FOR["ONEAUDIT"] = TESTS_FOR["CARD_COMPARISON"]


# ---- generation ----------------------------------------------------------------------------------------------
def gen_ballot(rng, con):
    """One card's marks in a contest (CVR side)."""
    kind, cands = con["kind"], con["candidates"]
    if kind == "irv":
        k = rng.choice((0, 1, 1, 2, len(cands), len(cands)))
        prefs = rng.sample(cands, min(k, len(cands)))
        # bias towards the reported winner
        if con["winner"][0] in prefs and rng.random() < 0.6:
            prefs.remove(con["winner"][0])
            prefs.insert(0, con["winner"][0])
        ranks = {c: i + 1 for i, c in enumerate(prefs)}
        if rng.random() < 0.3:
            # the mapping stored in candidate order rather than preference order (an export lists the columns in ballot
            # order): two ballots can then list the same candidates in the same order with different ranks
            return {c: ranks[c] for c in cands if c in ranks}
        return ranks
    r = rng.random()
    marks = {}
    if r < 0.08:
        chosen = []
    elif r < 0.86 or kind == "supermajority" and r < 0.95:
        # one mark, biased to winners so that reported outcomes are usually right
        pool = con["winner"] * 3 + cands
        chosen = [rng.choice(pool)]
    else:
        chosen = rng.sample(cands, rng.randint(2, len(cands)))
    for c in cands:
        if c in chosen:
            marks[c] = rng.choice(TRUTHY)
        elif rng.random() < 0.3:
            marks[c] = rng.choice(FALSY)
    return marks


def perturb(rng, con, marks):
    """A manual reading that differs from the CVR: overstatements and understatements of every size."""
    kind, cands = con["kind"], con["candidates"]
    r = rng.random()
    if kind == "irv":
        k = rng.randint(0, len(cands))
        return {c: i + 1 for i, c in enumerate(rng.sample(cands, k))}
    w = con["winner"][0]
    losers = [c for c in cands if c not in con["winner"]]
    if r < 0.3 and losers:
        return {rng.choice(losers): rng.choice(TRUTHY)}          # vote for a loser
    if r < 0.55:
        return {w: rng.choice(TRUTHY)}                           # vote for the winner
    if r < 0.7:
        return {}                                                # blank
    if r < 0.85 and len(cands) >= 2:
        return {c: 1 for c in rng.sample(cands, 2)}              # overvote
    return gen_ballot(rng, con)


def gen_spec(rng, audit_types=("CARD_COMPARISON", "ONEAUDIT", "POLLING"), n_contests=None, n_cards=None,
             kinds=("plurality", "plurality", "supermajority", "irv"), style=None, allow_wrong=True,
             error_rate=None, phantom_rate=None, same_audit_type=False):
    use_style = (rng.random() < 0.6) if style is None else style
    ncon = n_contests or rng.choice((1, 1, 2, 2, 3, 4))
    ncards = n_cards or rng.choice((3, 5, 8, 12, 20, 30, 45, 60))
    contests = {}
    if use_style:
        # polling "assumes style information is irrelevant" (Audit.mvrs_to_data): it consumes the whole sample, so it is
        # only generated without style-based sampling
        audit_types = tuple(a for a in audit_types if a != "POLLING") or ("CARD_COMPARISON",)
    at_common = rng.choice(audit_types)
    for j in range(ncon):
        cid = f"con{j + 1}"
        kind = rng.choice(kinds)
        ncand = rng.randint(2, 4) if kind != "irv" else rng.randint(2, 4)
        cands = [f"{cid[3:]}{chr(ord('a') + i)}" for i in range(ncand)]
        k = 1 if kind != "plurality" else rng.choice((1, 1, 1, min(2, ncand - 1)))
        at = at_common if (same_audit_type or not use_style and rng.random() < 0.7) else rng.choice(audit_types)
        if kind == "irv" and at == "POLLING" and rng.random() < 0.5:
            at = "CARD_COMPARISON"
        test, estim, bet, kw = rng.choice(TESTS_FOR[at])
        share = rng.choice((0.5, 0.5, 0.25, 0.1, 2 / 3, 0.6)) if kind == "supermajority" else None
        if bet == "fixed_bet" and share is not None:
            # fixed_bet's lambda is the user's and must not exceed 1/u (the C01 quantifier); for a super-majority
            # assorter with bound u_a = 1/(2f) the comparison bound 2/(2 - v/u_a) can reach 2 u_a
            kw = {"lam": min(0.5, share)}
        contests[cid] = {"kind": kind, "candidates": cands, "winner": cands[:k], "n_winners": k,
                         "share": share,
                         "risk_limit": rng.choice((0.01, 0.05, 0.05, 0.1, 0.2, 0.5)), "audit_type": at,
                         "test": test, "estim": estim, "bet": bet, "test_kwargs": dict(kw), "cards": None}
    # styles: which contests each card lists
    cids = list(contests)
    style_mode = rng.choice(("all", "random", "random", "disjoint", "nested"))
    n_batches = rng.choice((1, 2, 3))
    pooled_batches = set(b for b in range(n_batches) if rng.random() < 0.4) \
        if any(c["audit_type"] == "ONEAUDIT" for c in contests.values()) else set()
    cards = []
    per_batch = [0] * n_batches
    for i in range(ncards):
        if style_mode == "all":
            lst = list(cids)
        elif style_mode == "disjoint":
            lst = [cids[i % len(cids)]]
        elif style_mode == "nested":
            lst = cids[: 1 + i % len(cids)]
        else:
            lst = [c for c in cids if rng.random() < 0.65]
        if rng.random() < 0.05:
            lst = []
        b = rng.randrange(n_batches)
        per_batch[b] += 1
        cards.append({"id": f"{7 + b}-{b + 1}-{per_batch[b]}", "votes": {c: gen_ballot(rng, contests[c]) for c in lst},
                      "tally_pool": f"{7 + b}-{b + 1}", "pool": b in pooled_batches})
    # every contest is listed on at least two cards (an audit of a contest that is on no card is not generated)
    for j, cid in enumerate(cids):
        have = [cd for cd in cards if cid in cd["votes"]]
        for q in range(len(cards)):
            cd = cards[(j + q) % len(cards)]
            if len(have) >= min(2, len(cards)):
                break
            if cid not in cd["votes"]:
                cd["votes"][cid] = gen_ballot(rng, contests[cid])
                have.append(cd)
    # reported winners: usually right (taken from the CVRs), sometimes deliberately wrong
    for cid, con in contests.items():
        if con["kind"] == "plurality":
            tal = {c: sum(1 for cd in cards if cid in cd["votes"] and bool(cd["votes"][cid].get(c))) for c in con["candidates"]}
            order = sorted(con["candidates"], key=lambda c: (-tal[c], c))
            con["winner"] = order[: con["n_winners"]]
            if allow_wrong and rng.random() < 0.12:
                con["winner"] = list(reversed(order))[: con["n_winners"]]
        elif con["kind"] == "irv":
            cnt = irv.Counter(tuple(sorted(cd["votes"][cid], key=lambda c: cd["votes"][cid][c])) for cd in cards if cid in cd["votes"])
            w = irv.irv_order(con["candidates"], cnt)[-1]
            if allow_wrong and rng.random() < 0.12:
                w = rng.choice(con["candidates"])
            con["winner"] = [w]
            tot = sum(cnt.values())
            true_all = irv.all_true_assertions(con["candidates"], cnt, max(tot, 1), lambda a, b, c, d: 1.0)
            keys = [k for k in true_all if k[1] == w or rng.random() < 0.3]
            rng.shuffle(keys)
            js = []
            for k in keys[: rng.randint(1, 5)]:
                if k[0] == "NEB":
                    js.append({"assertion_type": "WINNER_ONLY", "winner": k[1], "loser": k[2], "already_eliminated": ""})
                else:
                    js.append({"assertion_type": "IRV_ELIMINATION", "winner": k[1], "loser": k[2], "already_eliminated": sorted(k[3])})
            if not js or (allow_wrong and rng.random() < 0.15):
                a, b = rng.sample(con["candidates"], 2)
                js.append({"assertion_type": "WINNER_ONLY", "winner": a, "loser": b, "already_eliminated": ""})
            con["assertion_json"] = js
    # card bounds: >= number of cards listing the contest, or unspecified
    shortfall_mode = rng.choice(("none", "one", "all_different", "unspecified", "none"))
    if phantom_rate == 0:
        shortfall_mode = "none"
    extra_total = 0
    for j, (cid, con) in enumerate(contests.items()):
        n = sum(1 for cd in cards if cid in cd["votes"])
        if shortfall_mode == "none":
            con["cards"] = n
        elif shortfall_mode == "one":
            con["cards"] = n + (rng.randint(1, 3) if j == 0 else 0)
        elif shortfall_mode == "all_different":
            con["cards"] = n + j + 1
        else:
            con["cards"] = None
        extra_total = max(extra_total, (con["cards"] or 0) - n)
    max_cards = ncards + (extra_total if shortfall_mode != "unspecified" else rng.choice((0, 1, 3)))
    if not use_style:
        max_cards = ncards + rng.choice((0, 0, 1, 2, 5)) if phantom_rate != 0 else ncards
    ph_pool = [None, False]
    if pooled_batches and rng.random() < 0.5:
        b = rng.choice(sorted(pooled_batches))
        ph_pool = [f"{7 + b}-{b + 1}", True]
    elif pooled_batches and rng.random() < 0.3:
        ph_pool = ["phantom-pool", True]
    # manual records
    er = rng.choice((0, 0.05, 0.2, 0.5, 1.0)) if error_rate is None else error_rate
    pr = rng.choice((0, 0, 0.05, 0.3)) if phantom_rate is None else phantom_rate
    mvrs = {}
    for i, cd in enumerate(cards):
        r = rng.random()
        if r < pr:
            mvrs[str(i)] = {"kind": "phantom"}
        elif r < pr + er:
            v = {}
            for c in cd["votes"]:
                if rng.random() < 0.15:
                    continue   # the manual record lacks the contest
                v[c] = perturb(rng, contests[c], cd["votes"][c]) if rng.random() < 0.7 else copy.deepcopy(cd["votes"][c])
            if rng.random() < 0.1:
                extra = [c for c in contests if c not in cd["votes"]]
                if extra:
                    c = rng.choice(extra)
                    v[c] = gen_ballot(rng, contests[c])
            mvrs[str(i)] = {"kind": "votes", "votes": v}
    if rng.random() < 0.15:
        # a batch whose label is falsy (batch number 0, an empty string): labels are opaque keys
        b = rng.choice(sorted(pooled_batches)) if pooled_batches else rng.randrange(n_batches)
        old, new = f"{7 + b}-{b + 1}", rng.choice((0, ""))
        for cd in cards:
            if cd["tally_pool"] == old:
                cd["tally_pool"] = new
        if ph_pool[0] == old:
            ph_pool[0] = new
    if pooled_batches and rng.random() < 0.15:
        # a batch label shared by pooled and unpooled cards (the Dominion reader labels batches, but flags cards by their
        # counting group): the batch mean is over the flagged cards, and only they use it
        for cd in cards:
            if cd["pool"] and rng.random() < 0.3:
                cd["pool"] = False
    restrict = False
    if rng.random() < 0.2:
        # contests that are on the cards but not under audit (most real cards carry some)
        for cd in cards:
            for extra in ("zz-not-audited-1", "zz-not-audited-2"):
                if rng.random() < 0.4:
                    cd["votes"][extra] = {"x": 1}
        restrict = rng.random() < 0.5
    amc = max_cards + rng.choice((0, 4, 100)) if rng.random() < 0.3 else None
    sn = {"kind": "sha256", "seed": rng.randrange(10 ** 12)} if rng.random() < 0.6 else {"kind": "explicit", "nums": None}
    return {"restrict_pool_dict": restrict, "phantom_prefix": rng.choice(("phantom-1-", "phantom-1-", "phantom-1-", "ph-1-", "Phantom-2-")),
            "audit_max_cards": amc, "use_style": use_style, "max_cards": max_cards, "contests": contests, "cards": cards, "phantom_pool": ph_pool,
            "mvrs": mvrs, "sample_nums": sn, "direct_supermajority": rng.random() < 0.5,
            "sn_mode": rng.choice(("list_order", "reverse", "shuffled", "contest_first")), "sn_step": rng.choice((1, 1, 17, 0.5)), **({"sn_base": 2 ** 255 + 12345, "sn_step": 2 ** 128} if rng.random() < 0.2 else
               rng.choice(({"sn_base": -7}, {"sn_base": -1000}, {"sn_base": -2 ** 255, "sn_step": 2 ** 250})) if rng.random() < 0.15 else
               rng.choice(({"sn_base": 2 ** 63 - 1000, "sn_step": 300}, {"sn_base": 2 ** 64 - 50, "sn_step": 7},
                           {"sn_base": 2 ** 53 - 3, "sn_step": 1})) if rng.random() < 0.15 else {})}   # (numbers straddling a machine-word boundary, closer together than a double resolves)   # (signed or user-supplied numbers: some or all below 0)


def force_uniform_pool(rng, es):
    """Stratum: a pooled ONEAudit batch in which every card casts the same valid vote for the winner of a super-majority
    contest with a non-representable assorter bound (f = 0.6, 2/3): the batch mean is then a quotient of floats that all
    equal the upper bound (the regime where a mean can round above it), and the manual records score lower."""
    cid = next(iter(es["contests"]))
    con = es["contests"][cid]
    con.update(kind="supermajority", share=rng.choice((0.6, 2 / 3, 0.6, 0.7)), audit_type="ONEAUDIT", n_winners=1,
               winner=[con["candidates"][0]])
    con.pop("assertion_json", None)
    if con.get("bet") == "fixed_bet":
        con["test_kwargs"] = {"lam": 0.5}
    pool = es["cards"][0]["tally_pool"]
    k = 0
    for cd in es["cards"]:
        if cd["tally_pool"] == pool:
            cd["pool"] = True
            cd["votes"][cid] = {con["winner"][0]: rng.choice(TRUTHY)}
            k += 1
            if str(es["cards"].index(cd)) not in es["mvrs"] and rng.random() < 0.6:
                es["mvrs"][str(es["cards"].index(cd))] = {"kind": "votes", "votes": {} if rng.random() < 0.5 else {cid: {}}}
        elif cid in cd["votes"] and rng.random() < 0.5:
            cd["votes"][cid] = {con["candidates"][-1]: 1}
    con["cards"] = None if con["cards"] is None else max(con["cards"], sum(1 for cd in es["cards"] if cid in cd["votes"]))
    es["use_style"] = True
    for c2 in es["contests"].values():
        if c2["audit_type"] == "POLLING":
            c2["audit_type"] = "CARD_COMPARISON"
            c2["test"], c2["estim"], c2["bet"], c2["test_kwargs"] = "alpha_mart", "shrink_trunc", None, {"d": 10, "f": 0}
    return es


# ---- reference assorters (written from the definitions; cross-checked by C02 / C14) ---------------------------
def ref_assort(con, asn_desc, votes_for_contest):
    """Assorter value of a card for one assertion.  votes_for_contest: the card's marks in the contest or None."""
    v = votes_for_contest
    kind = con["kind"]
    if kind == "plurality":
        w, l = asn_desc["winner"], asn_desc["loser"]
        return ((1 if v and bool(v.get(w)) else 0) - (1 if v and bool(v.get(l)) else 0) + 1) / 2
    if kind == "supermajority":
        if v is None:
            return 0.5
        marked = [c for c in con["candidates"] if bool(v.get(c))]
        if len(marked) != 1:
            return 0.5
        return (1 / (2 * con["share"])) if marked[0] == con["winner"][0] else 0.0
    # irv
    ranks = {c: r for c, r in (v or {}).items() if bool(r)}
    b = tuple(sorted(ranks, key=lambda c: ranks[c]))
    w, l = asn_desc["winner"], asn_desc["loser"]
    if asn_desc["type"] == "NEB":
        wv = 1 if b and b[0] == w else 0
        lv = 1 if l in b and (w not in b or b.index(l) < b.index(w)) else 0
    else:
        f = irv.first_pref(b, set(asn_desc["elim"]))
        wv, lv = (1 if f == w else 0), (1 if f == l else 0)
    return (wv - lv + 1) / 2


# ---- driving the library ---------------------------------------------------------------------------------------
def rename_contests(es, mapping):
    """Rename contest identifiers throughout an election spec (contests, card votes, manual-record votes)."""
    es["contests"] = {mapping.get(k, k): v for k, v in es["contests"].items()}
    for cd in es["cards"]:
        cd["votes"] = {mapping.get(k, k): v for k, v in cd["votes"].items()}
    for m in es["mvrs"].values():
        if m.get("votes") is not None:
            m["votes"] = {mapping.get(k, k): v for k, v in m["votes"].items()}
    return es


class Sim:
    """Builds the library objects for a spec, step by step (each step is a real library call)."""

    def __init__(self, spec):
        from shangrla.core.Audit import Assertion, Audit, Contest, CVR
        from shangrla.core.NonnegMean import NonnegMean
        self.spec = spec
        self.L = {"Assertion": Assertion, "Audit": Audit, "Contest": Contest, "CVR": CVR, "NonnegMean": NonnegMean}
        self.use_style = spec["use_style"]
        self.sink = io.StringIO()

    # -- step 1: audit, contests, CVRs -------------------------------------------------------------------------
    def build_contests(self):
        A, C, NM = self.L["Audit"], self.L["Contest"], self.L["NonnegMean"]
        spec = self.spec
        self.audit = A.from_dict({"seed": 12345678901234567890, "sim_seed": 314159265, "quantile": 0.8,
                                  "error_rate_1": 0.001, "error_rate_2": 0.0, "reps": None,
                                  "strata": {"stratum_1": {"max_cards": spec["max_cards"], "use_style": spec["use_style"],
                                                           "replacement": False}}})
        if spec.get("audit_max_cards") is not None:
            # the audit-wide attribute (e.g. a jurisdiction-wide count); the stratum's own bound is what governs its cards
            self.audit.max_cards = spec["audit_max_cards"]
        d = {}
        for cid, c in spec["contests"].items():
            scf = {"plurality": C.SOCIAL_CHOICE_FUNCTION.PLURALITY, "supermajority": C.SOCIAL_CHOICE_FUNCTION.SUPERMAJORITY,
                   "irv": C.SOCIAL_CHOICE_FUNCTION.IRV}[c["kind"]]
            d[cid] = {"name": cid, "risk_limit": c["risk_limit"], "cards": c["cards"], "choice_function": scf,
                      "n_winners": c["n_winners"], "share_to_win": c["share"], "candidates": list(c["candidates"]),
                      "winner": list(c["winner"]), "assertion_file": "x.json" if c["kind"] == "irv" else None,
                      "audit_type": getattr(A.AUDIT_TYPE, c["audit_type"]), "test": getattr(NM, c["test"]),
                      "estim": getattr(NM, c["estim"]) if c["estim"] else None,
                      "bet": getattr(NM, c["bet"]) if c["bet"] else None, "test_kwargs": dict(c["test_kwargs"]),
                      "use_style": spec["use_style"]}
            if spec.get("contest_style_flag_unset"):
                # the contest dict says nothing about style (Contest.from_cvr_list, or a dict without the key): the audit's
                # stratum is what says how cards are sampled
                del d[cid]["use_style"]
            if c["kind"] == "irv":
                d[cid]["assertion_json"] = copy.deepcopy(c["assertion_json"])
        self.contests = C.from_dict_of_dicts(d)
        return self.contests

    def build_cvrs(self):
        CVR = self.L["CVR"]
        self.cvr_list = [CVR(id=c["id"], votes=copy.deepcopy(c["votes"]), tally_pool=c["tally_pool"], pool=c["pool"],
                             card_in_batch=int(c["id"].split("-")[-1])) for c in self.spec["cards"]]
        self.n_real = len(self.cvr_list)
        return self.cvr_list

    def expand_pools(self):
        """ONEAudit precondition under style: every pooled CVR lists every contest of its pool."""
        CVR = self.L["CVR"]
        if self.use_style and any(c.pool for c in self.cvr_list):
            CVR.add_pool_contests(self.cvr_list, self.pool_dict())

    def pool_dict(self):
        """The pool -> contests mapping handed to add_pool_contests: the library's own, or that mapping restricted to the
        contests under audit (cards also carry contests nobody audits; only the audited ones need adding)."""
        tp = self.L["CVR"].pool_contests(self.cvr_list)
        if self.spec.get("restrict_pool_dict"):
            tp = {p: set(cs) & set(self.contests) for p, cs in tp.items()}
        return tp

    def fix_bounds(self):
        """Card bounds must be >= the number of CVRs listing the contest (the property's own precondition)."""
        for cid, con in self.contests.items():
            n = sum(1 for c in self.cvr_list if c.has_contest(cid))
            if con.cards is not None and con.cards < n:
                con.cards = int(n)

    def make_phantoms(self):
        CVR = self.L["CVR"]
        tp, pool = self.spec["phantom_pool"]
        self.real_list = self.cvr_list   # the caller's own list object (must not be touched by make_phantoms)
        self.cvr_list, self.n_phantoms = CVR.make_phantoms(audit=self.audit, contests=self.contests, cvr_list=self.cvr_list,
                                                           prefix=self.spec.get("phantom_prefix", "phantom-1-"), tally_pool=tp, pool=pool)
        self.phantom_contests = [set(c.votes) for c in self.cvr_list[self.n_real:]]
        return self.cvr_list, self.n_phantoms

    def make_assertions(self):
        self.L["Assertion"].make_all_assertions(self.contests)
        if self.spec.get("direct_supermajority"):
            # the super-majority constructor called the way the library's own test calls it: the contest carries the share
            C = self.L["Contest"]
            for cid, con in self.contests.items():
                if con.choice_function == C.SOCIAL_CHOICE_FUNCTION.SUPERMAJORITY:
                    losers = [c for c in con.candidates if c not in con.winner]
                    con.assertions = self.L["Assertion"].make_supermajority_assertion(
                        contest=con, winner=con.winner[0], loser=losers, test=con.test, estim=con.estim, bet=con.bet,
                        test_kwargs=con.test_kwargs)
        # description of every assertion for the reference assorters
        self.desc = {}
        for cid, con in self.contests.items():
            sc = self.spec["contests"][cid]
            self.desc[cid] = {}
            if sc["kind"] == "irv":
                for j in sc["assertion_json"]:
                    if j["assertion_type"] == "WINNER_ONLY":
                        self.desc[cid][j["winner"] + " v " + j["loser"]] = {"type": "NEB", "winner": j["winner"], "loser": j["loser"]}
                    else:
                        key = j["winner"] + " v " + j["loser"] + " elim " + " ".join(j["already_eliminated"])
                        self.desc[cid][key] = {"type": "NEN", "winner": j["winner"], "loser": j["loser"],
                                               "elim": list(j["already_eliminated"])}
            else:
                for name, a in con.assertions.items():
                    self.desc[cid][name] = {"type": sc["kind"], "winner": a.winner, "loser": a.loser}

    def set_margins(self):
        A = self.L["Assertion"]
        CVR = self.L["CVR"]
        if self.use_style and any(c.pool for c in self.cvr_list):
            if CVR.add_pool_contests(self.cvr_list, self.pool_dict()):
                for cid, con in self.contests.items():
                    n = sum(1 for c in self.cvr_list if c.has_contest(cid))
                    if con.cards < n:
                        con.cards = int(n)
                        for a in con.assertions.values():
                            a.test.N = int(n)
        self.min_margin = A.set_all_margins_from_cvrs(audit=self.audit, contests=self.contests, cvr_list=self.cvr_list)
        for con in self.contests.values():
            if con.audit_type == self.L["Audit"].AUDIT_TYPE.ONEAUDIT:
                for a in con.assertions.values():
                    a.assorter.set_tally_pool_means(cvr_list=self.cvr_list, use_style=self.use_style)

    def revise_cvrs(self, revs):
        """A corrected CVR export: the votes of some cards in some contest are replaced IN PLACE on the same CVR objects of
        the same list (direct assignment, or CVR.update_votes with every old key spelled out), then margins and pool means
        are recomputed by the same library calls.  revs = [[card index, contest id, new votes, 'assign'|'update'], ...]"""
        with contextlib.redirect_stdout(self.sink):
            for i, cid, new, how in revs:
                card = self.spec["cards"][i]
                old = card["votes"][cid]
                if how == "update":
                    full = {k: 0 for k in old}
                    full.update(copy.deepcopy(new))
                    self.cvr_list[i].update_votes({cid: full})
                    card["votes"][cid] = copy.deepcopy(full)
                else:
                    self.cvr_list[i].votes[cid] = copy.deepcopy(new)
                    card["votes"][cid] = copy.deepcopy(new)
            self.set_margins()
        return self

    def setup(self):
        with contextlib.redirect_stdout(self.sink):
            self.build_contests()
            self.build_cvrs()
            self.expand_pools()
            self.fix_bounds()
            self.make_phantoms()
            self.make_assertions()
            self.set_margins()
        return self

    # -- sample numbers, draws, manual records ---------------------------------------------------------------------
    def assign_sample_nums(self, rng=None):
        from cryptorandom.cryptorandom import SHA256
        sn = self.spec["sample_nums"]
        if sn["kind"] == "sha256":
            self.L["CVR"].assign_sample_nums(self.cvr_list, SHA256(sn["seed"]))
        else:
            nums = sn.get("nums")
            if nums is None:
                n = len(self.cvr_list)
                mode = self.spec.get("sn_mode", "list_order")
                order = list(range(n))
                if mode == "reverse":
                    order.reverse()
                elif mode == "shuffled":
                    import random as _r
                    _r.Random(n * 7919 + len(self.spec["cards"])).shuffle(order)
                elif mode == "contest_first":
                    first = next(iter(self.contests))
                    order.sort(key=lambda i: (0 if self.cvr_list[i].has_contest(first) else 1, i))
                nums = [0] * n
                for pos, i in enumerate(order):
                    # sample numbers 0, 1, 2, ... (what the library's own test uses) or spaced; the smallest is 0
                    nums[i] = self.spec.get("sn_base", 0) + pos * self.spec.get("sn_step", 1)
                sn["nums"] = nums
            for c, v in zip(self.cvr_list, nums):
                c.sample_num = v

    def mvr_for(self, i):
        """The manual record for card i (a card behind a phantom CVR cannot be found, unless the election says that one was:
        a card the manifest lists but the CVR export lacks)."""
        CVR = self.L["CVR"]
        cv = self.cvr_list[i]
        m = self.spec["mvrs"].get(str(i))
        if (m and m["kind"] == "phantom") or (cv.phantom and not (m and m["kind"] == "votes")):
            return CVR(id=cv.id, votes={}, phantom=True)
        if m and m["kind"] == "votes":
            return CVR(id=cv.id, votes=copy.deepcopy(m["votes"]))
        # identical to the original CVR content (pool expansion is a CVR-side artefact)
        src = self.spec["cards"][i]["votes"] if i < len(self.spec["cards"]) else {}
        return CVR(id=cv.id, votes=copy.deepcopy(src))

    def mvr_votes(self, i, cid):
        """Reference view: ('phantom'|'missing'|'votes', marks)."""
        cv = self.cvr_list[i]
        m = self.spec["mvrs"].get(str(i))
        if (m and m["kind"] == "phantom") or (cv.phantom and not (m and m["kind"] == "votes")):
            return "phantom", None
        votes = m["votes"] if (m and m["kind"] == "votes") else (self.spec["cards"][i]["votes"] if i < len(self.spec["cards"]) else {})
        if cid not in votes:
            return "missing", None
        return "votes", votes[cid]

    def ref_A(self, i, cid, name):
        """Assorter value A_i of the manual record with the conventions of C03."""
        st, v = self.mvr_votes(i, cid)
        if st == "phantom":
            return 0.0
        if st == "missing":
            if self.use_style:
                return 0.0
            return ref_assort(self.spec["contests"][cid], self.desc[cid][name], None)
        return ref_assort(self.spec["contests"][cid], self.desc[cid][name], v)

    def ref_population(self, cid):
        """Reference: the cards under audit for a contest, independent of what the library's pool expansion did.  Without
        style: every card.  With style: cards whose own record lists the contest (real cards: the spec; phantoms: the
        contests make_phantoms gave them) plus every pooled card of a pooled batch in which some card lists it (ONEAudit:
        the batch is audited as a whole for every contest on any of its cards)."""
        n = len(self.cvr_list)
        if not self.use_style:
            return list(range(n))
        own = []
        for i, c in enumerate(self.cvr_list):
            own.append(set(self.spec["cards"][i]["votes"]) if i < self.n_real else set(self.phantom_contests[i - self.n_real]))
        pools = {}
        for i, c in enumerate(self.cvr_list):
            if c.pool:
                pools.setdefault(c.tally_pool, set()).update(own[i])
        return [i for i, c in enumerate(self.cvr_list) if cid in own[i] or (c.pool and cid in pools.get(c.tally_pool, ()))]

    def audited_indices(self, cid):
        return [i for i, c in enumerate(self.cvr_list) if (not self.use_style) or c.has_contest(cid)]

    def set_sizes(self, sizes):
        for cid, con in self.contests.items():
            con.sample_size = int(sizes.get(cid, 0))

    def draw(self, prev=None, only=None):
        """Style-based audits: the library's consistent sampling.  Without style information the sample is a simple
        random sample of all cards: the first n cards in sample-number order (n = the common sample size).
        only: the contest identifiers handed to a CONTINUED draw (the contests still being escalated)."""
        if self.use_style:
            contests = self.contests if only is None else {c: self.contests[c] for c in self.contests if c in only}
            return self.L["CVR"].consistent_sampling(cvr_list=self.cvr_list, contests=contests, sampled_cvr_indices=prev)
        n = max(con.sample_size for con in self.contests.values())
        order = sorted(range(len(self.cvr_list)), key=lambda i: self.cvr_list[i].sample_num)
        return order[:n]

    def samples(self, indices):
        """(mvr_sample, cvr_sample) in selection order, through prep_comparison_sample."""
        CVR = self.L["CVR"]
        cvr_sample = [self.cvr_list[i] for i in indices]
        mvr_sample = [self.mvr_for(i) for i in indices]
        order = {self.cvr_list[i].id: {"selection_order": k, "serial": i + 1} for k, i in enumerate(indices)}
        # hand them over in another order: prep_comparison_sample must put BOTH into selection order.  Three ways the lists
        # reach it in practice: manual records in another order than the CVRs; both in card-identifier order (already
        # paired, but not in selection order); both scrambled independently
        mode = sum(indices) % 3 if indices else 0
        if mode == 0:
            mvr_sample.reverse()
        elif mode == 1:
            cvr_sample.sort(key=lambda c: str(c.id))
            mvr_sample.sort(key=lambda c: str(c.id))
        else:
            cvr_sample.sort(key=lambda c: (len(str(c.id)), str(c.id)[::-1]))
            mvr_sample.sort(key=lambda c: str(c.id)[::-1])
        CVR.prep_comparison_sample(mvr_sample, cvr_sample, order)
        return mvr_sample, cvr_sample


def upper_bound_formula(audit_type, margin, u_assorter):
    if audit_type == "POLLING":
        return u_assorter
    return 2 / (2 - margin / u_assorter)
