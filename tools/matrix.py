#!/venv/bin/python
"""tools/matrix.py [--only NAME ...] [--all-checks] : run checks against every kept change and record which checks catch it.

For every directory under /verif/seeded/ (independent sub-agent mutants) and /verif/regressions/ (reverse patches of the
repository's own fix: commits) the patch is applied to a throw-away worktree of /repo HEAD (never to /repo), the checks named
in meta.json["run_checks"] (default: the property's own check) are run with SHANGRLA_REPO pointing at it, and
meta.json["caught_by"] / ["missed_by"] are rewritten.  Prints a table; writes /verif/seeded/CATCH_MATRIX.md.
"""
import json
import os
import subprocess
import sys
import tempfile
import shutil

ROOT = "/verif"
ALL = [f"C{i:02d}" for i in range(1, 21)]


def run_one(d, all_checks=False, tier="quick"):
    meta = json.load(open(os.path.join(d, "meta.json")))
    patch = os.path.join(d, "patch.diff")
    wt = tempfile.mkdtemp(prefix="mx-", dir="/tmp")
    os.rmdir(wt)
    # meta["apply_to"]: a change written against an earlier repository commit that a later fix: commit has made
    # unreachable (e.g. the library now refuses the parameter regime it needs) is applied to that commit instead of HEAD
    subprocess.run(["git", "-C", "/repo", "worktree", "add", "-q", "--detach", wt, meta.get("apply_to", "HEAD")], check=True)
    res = {}
    try:
        ap = subprocess.run(["git", "-C", wt, "apply", patch], capture_output=True, text=True)
        if ap.returncode != 0:
            return meta, {"_apply": "FAILED " + ap.stderr[:200]}
        props = meta["property"] if isinstance(meta["property"], list) else [meta["property"]]
        checks = ALL if all_checks else meta.get("run_checks") or props
        for c in checks:
            p = subprocess.run(["./check", c, "--tier", tier], cwd=ROOT, env=dict(os.environ, SHANGRLA_REPO=wt),
                               capture_output=True, text=True)
            viol = [l for l in p.stdout.splitlines() if l.startswith("  violation")]
            mech = sorted(set(l.split("mechanism=")[1].split(" count=")[0] for l in viol))
            res[c] = {"rc": p.returncode, "mechanisms": mech[:6]}
    finally:
        subprocess.run(["git", "-C", "/repo", "worktree", "remove", "--force", wt])
        shutil.rmtree(wt, ignore_errors=True)
    return meta, res


def main():
    args = sys.argv[1:]
    all_checks = "--all-checks" in args
    only = [a for a in args if not a.startswith("--")]
    rows = []
    jobs = next((int(a.split("=")[1]) for a in args if a.startswith("--jobs=")), 1)
    todo = []
    for base in ("seeded", "regressions"):
        bd = os.path.join(ROOT, base)
        if not os.path.isdir(bd):
            continue
        for name in sorted(os.listdir(bd)):
            d = os.path.join(bd, name)
            if not os.path.exists(os.path.join(d, "meta.json")) or (only and name not in only):
                continue
            todo.append((base, name, d))
    from concurrent.futures import ThreadPoolExecutor
    with ThreadPoolExecutor(max_workers=jobs) as ex:
        results = list(ex.map(lambda t: run_one(t[2], all_checks), todo))
    for (base, name, d), (meta, res) in zip(todo, results):
        if True:
            caught = sorted(c for c, r in res.items() if isinstance(r, dict) and r["rc"] == 1)
            missed = sorted(c for c, r in res.items() if isinstance(r, dict) and r["rc"] == 0)
            incon = sorted(c for c, r in res.items() if isinstance(r, dict) and r["rc"] not in (0, 1))
            meta["caught_by"] = [{"check": c, "tier": "quick", "mechanisms": res[c]["mechanisms"]} for c in caught]
            meta["missed_by"] = missed
            if incon:
                meta["inconclusive"] = incon
            json.dump(meta, open(os.path.join(d, "meta.json"), "w"), indent=1)
            rows.append((base, name, meta["property"], caught, missed, incon, res.get("_apply")))
            print(base, name, "caught by", caught, "missed by", missed, "inconclusive", incon, res.get("_apply") or "", flush=True)
    # the table is rebuilt from EVERY meta.json (also those not run in this invocation)
    with open(os.path.join(ROOT, "seeded", "CATCH_MATRIX.md"), "w") as f:
        f.write("# Which checks catch which changes (quick tier, run by tools/matrix.py against throw-away worktrees)\n\n")
        f.write("| kind | change | property | caught by | run but missed | note |\n|---|---|---|---|---|---|\n")
        for base in ("seeded", "regressions"):
            bd = os.path.join(ROOT, base)
            for name in sorted(os.listdir(bd)) if os.path.isdir(bd) else []:
                mp = os.path.join(bd, name, "meta.json")
                if not os.path.exists(mp):
                    continue
                m = json.load(open(mp))
                caught = [c["check"] for c in m.get("caught_by", [])]
                note = ("applied to " + m["apply_to"] + ": " + m.get("apply_to_reason", "")) if m.get("apply_to") else ""
                f.write(f"| {base} | {name} | {m['property']} | {', '.join(caught) or '-'} | {', '.join(m.get('missed_by', [])) or '-'} | {note} |\n")


if __name__ == "__main__":
    main()
