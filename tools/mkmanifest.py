#!/venv/bin/python
"""Regenerate MANIFEST.json from the table below (and validate it against the schema if jsonschema is available)."""
import json
import os
import sys

HERE = os.path.dirname(os.path.dirname(os.path.abspath(__file__)))

BASELINE_OFF = ("cd /repo && env -u SHANGRLA_VERIF /venv/bin/python -m pytest -ra -q -p no:cacheprovider "
                "--timeout=900 --continue-on-collection-errors")

# id -> (technique, level text, level note, design ref)
CHECKS = {
    "C11": ("runtime contract (postcondition) on the six real NonnegMean test methods under stratified hostile samples",
            "Exploration by runtime monitoring: a postcondition installed on the real alpha_mart, betting_mart, "
            "kaplan_kolmogorov, kaplan_markov, kaplan_wald and wald_sprt checks length, NaN-freedom, range and "
            "overall-vs-history agreement on every call; the workload walks the boundary regimes the property names "
            "(length 1, all-zero, all-u, all equal to t, total > N t at first/middle/last draw, null mean at 0/u/"
            "beyond, tiny margins, runs of non-representable values, u re-assigned after construction) for every shipped estimator/bet, finite and infinite N, random_order on and off; the repository's own 55 tests are also run with the contract armed. "
            "Held on the executions observed, not a proof.",
            "trusted: numpy; documented domain exclusions listed in DESIGN.md C11 and 7.2 (finite-N SPRT with random_order="
            "False, Kaplan-Markov/Wald with finite N)",
            "DESIGN.md section 4, C11"),
    "C12": ("reference-model monitor: plain-Python loop products vs the real history, entry by entry; ALPHA-vs-betting equivalence and conversion inverses on the same runs",
            "Exploration by runtime monitoring: every history entry returned by the six real tests is compared with a "
            "loop reference that evaluates the published product on the same sample with the eta_j/lambda_j the real "
            "estimator/bet returned; the betting form is run side by side with the ALPHA form fed eta_j = mu_j(1+lambda_j(u-mu_j)); "
            "lam_to_eta/eta_to_lam are composed on scalars and arrays. Mismatches are diagnosed (e.g. double_product is "
            "asserted only if the witness equals min(1,1/cumprod(cumprod f))). Held on the executions observed.",
            "trusted: numpy, the boundary-index acceptance rules written down in DESIGN.md C12 and in vlib/nnref.py; "
            "eta_j/lambda_j ranges are C13's business",
            "DESIGN.md section 4, C12"),
    "C13": ("range contracts on the values returned by the real estimators/bets plus factor-sign observation on one-step extensions",
            "Exploration by runtime monitoring: the bound fixed_alternative_mean, shrink_trunc, optimal_comparison, "
            "fixed_bet and agrapa are called on hostile samples (long runs of zeros/u in tiny populations, eta within "
            "2^-20 of t or u, tuning parameters over 8 decades, margins below the assumed error rate) and their values "
            "checked against [0,u], [0,1/mu_j] and eta_j > mu_j with mu_j from an independent loop; the sign of every "
            "history entry and of every one-step extension prefix+[v], v in {0,u,t,u/2}, is observed.",
            "trusted: numpy; 'mu_j < u' means mu_j < u(1-1e-6); fixed_bet lambda <= 1/u (the documented range); u in {0.75, 0.9375} and narrow integer dtypes included for every estimator/bet",
            "DESIGN.md section 4, C13"),
    "C05": ("history monitor: bit-exact prefix / truncation / tail-replacement relations over recorded calls on one configured object",
            "Exploration by runtime monitoring: for each (configuration, sample, cut k, replacement tail) the real test is "
            "run on x, x[:k]+y and x[:k] and the recorded histories compared bit for bit (first k entries equal; truncation "
            "leaves k-1 entries unchanged and may only lower the k-th, and only when the total exceeds N t); estimators and "
            "bets are called directly and entry j must not move when observations >= j change. k=1 and k=n-1 strata forced.",
            "trusted: numpy cumulative kernels are sequential (bit equality is then the honest oracle)",
            "DESIGN.md section 4, C05"),
    "C01": ("exact-count monitor: the real test is executed on every distinct ordering of small null populations and on every sequence of small null laws; rejection frequencies compared exactly with alpha",
            "Exploration by runtime monitoring with an exact-count oracle: each cell fixes a shipped (test, estimator/bet, "
            "tuning) configuration and a null population (dyadic multiset, mean <= t, N <= 8 quick / <= 11 thorough) or a "
            "null law (2-3 atoms, dyadic weights, all k^n sequences, n <= 7 / 9), or a population of N in {12,16,24,32} with at most 3 minority values, or a tiny comparison audit whose reported outcome is wrong (every ordering of the cards through the real set_p_values / summarize_status); the real code is run on the whole family "
            "and for every attained alpha < 1 the exact fraction with min(p, min_j p_j) <= alpha is compared with alpha. "
            "No statistical test is involved in the quick tier; the thorough tier adds Monte-Carlo cells at N = 200, 1000 "
            "that alarm only when the exact binomial tail is below 1e-9. It decides the populations enumerated, not all N.",
            "trusted: numpy; dyadic populations (a population is null in the arithmetic the code uses); F(alpha) <= "
            "alpha(1+1e-9)+1e-12; defects that need N > 11 and move the rejection probability by < ~0.01 are out of reach",
            "DESIGN.md section 4, C01"),
    "C02": ("reference-model monitor: independent exact tally (Fractions) vs the real assorter means, per-ballot range check, margin-from-tally identity",
            "Exploration by runtime monitoring: for each generated ballot profile the real make_plurality_assertions / "
            "make_supermajority_assertion are built and Assorter.mean evaluated (style on and off); an independent tally "
            "decides whether every reported winner strictly beats every reported loser (resp. W > f V) and the iff is "
            "compared exactly, pair by pair and as a conjunction; every assorter value is range-checked; "
            "find_margin_from_tally is compared with 2*mean-1 for the oracle tally and both Contest.tally modes. "
            "Ties, k-winner, approval, exact-threshold and all-invalid strata are forced.",
            "trusted: numpy; shares with f and 1/(2f) dyadic at the threshold, other shares only away from it; write-in "
            "marks only on ballots with no mark for a listed candidate",
            "DESIGN.md section 4, C02"),
    "C18": ("runtime contract on CVR.merge_cvrs (pre-call deep snapshot, post-call comparison with a reference fold) plus a reference parser for the RAIRE readers",
            "Exploration by runtime monitoring: the contract on the real merge_cvrs snapshots every input record before "
            "the call (the merge mutates them) and compares ids/order, per-contest votes, phantom (AND), pool (OR, must be a "
            "bool) and tally pool with a reference fold; conflicts must raise. from_raire / from_raire_file are compared with "
            "a reference parser on generated inputs (1-3 contests, repeated and interleaved ballot ids), including through a real file.",
            "trusted: the reference fold in checks/c18.py; None tally pool means unknown",
            "DESIGN.md section 4, C18"),
    "C19": ("reference-model monitor (reference reading written from the property text) plus metamorphic monitor (marks shuffled, sorted keys, Modified first) over generated exports read by the real Dominion.read_cvrs",
            "Exploration by runtime monitoring: generated Dominion exports (both layouts, repeated candidates, ranks 0-5, "
            "IsVote mixed, obfuscated record ids, Modified blocks covering subsets of contests, either key order) are written "
            "to disk, read by the real reader under the full option grid and compared record by record with a reference "
            "reading; three re-serialisations of each export must give the identical list; read_cvrs_directory is checked "
            "for lexicographic file order. Mismatches are diagnosed by re-running the reference with one option flipped.",
            "trusted: json, the reference reader in checks/c19.py; one copy of a contest per data block",
            "DESIGN.md section 4, C19"),
    "C17": ("reference-model monitor: explicit enumeration of (batch, position) pairs vs the real lookups over the whole valid range; contract-style checks of prep_manifest",
            "Exploration by runtime monitoring: generated manifests (empty first/last/consecutive batches, single batch, "
            "phantom batch of 0/1/many cards) go through the real Dominion/Hart prep_manifest, then sample_from_manifest is "
            "called on the whole valid sample-number range in shuffled order and on boundary-only and phantom-only samples; "
            "each looked-up card is compared with a reference enumeration, injectivity, in-batch position, selection order "
            "and phantom MVRs are checked; sample_from_cvrs must return the CVRs in selection order with matching ids; "
            "oversized / undersized manifests must be refused.",
            "trusted: pandas; unique (tabulator, batch) labels; Dominion 1-based and Hart 0-based lookups as documented",
            "DESIGN.md section 4, C17"),
    "C04": ("brute-force reference monitor: recount of every returned assertion from the raw rankings and an n!-order sufficiency / auditability oracle run beside the real compute_raire_assertions",
            "Exploration by runtime monitoring: for each generated profile (2-7 candidates, 8 in the thorough tier; partial rankings, blanks, cards "
            "lacking the contest, ties at the first/last round, symmetric profiles, right/runner-up/random reported winner, "
            "both difficulty functions, order hints) the real generator's list is checked: every assertion recounts to its "
            "reported tallies with the winner strictly ahead; every elimination order ending in another candidate is "
            "contradicted; the list is empty exactly when even all true assertions together leave an order uncontradicted.",
            "trusted: the definitions of NEB/NEN and of 'contradicts' in vlib/irv.py (written from the RAIRE papers, not from "
            "the code); more than 8 candidates are not explored",
            "DESIGN.md section 4, C04"),
    "C15": ("brute-force reference monitor: min-max difficulty over all true assertions and all n! orders vs max difficulty of the real result",
            "Exploration by runtime monitoring: on auditable profiles (3-7 candidates, 8 in the thorough tier) the optimum = max over alternative "
            "orders of the cheapest true assertion contradicting it is computed by brute force with the shipped difficulty "
            "function and compared (rtol 1e-9) with the largest difficulty in the list returned by the real search, with and "
            "without (right or wrong) order hints, for both difficulty functions.",
            "trusted: vlib/irv.py; agap = 0; more than 8 candidates are not explored",
            "DESIGN.md section 4, C15"),
    "C14": ("exhaustive enumeration of (ballot, assertion) pairs through both real implementations; reader-vs-reader comparison on generated files; re-application of returned assertions",
            "Exploration by runtime monitoring, exhaustive on its main clause: for n = 2..6 candidates every partial ranking x "
            "ordered (winner, loser) pair x eliminated set is pushed through the real audit-side assorter (built by "
            "make_assertions_from_json from documented JSON, 1-based ranks) and the real NEB/NEN verdicts (0-based) and "
            "assort == (w-l+1)/2 is required; generated RAIRE files are read by both readers and compared entry by entry; "
            "assertions returned by real RAIRE runs must reproduce their reported tallies when re-applied.",
            "trusted: the JSON mapping WINNER_ONLY<->NEB, IRV_ELIMINATION<->NEN; duplicate-free rankings; string candidate ids",
            "DESIGN.md section 4, C14"),
    "C20": ("brute-force reference monitor: the set of untagged root-to-leaf paths of the real tree vs the set of uncontradicted elimination orders; exact tag sets per pruned node",
            "Exploration by runtime monitoring: for generated (candidates, alternative winner, assertion set) triples - empty, "
            "real RAIRE output, that output minus one, random, redundant, mutually inconsistent - the tree built by the real "
            "buildRemainingTreeAsLists is walked; its untagged leaves (reversed paths) must equal the orders no assertion "
            "contradicts, every pruned node's tags must be exactly the contradicting assertions with their proved flags, the "
            "rendered tuple must carry the 'Unpruned leaf' marker iff such a leaf exists, and parseAssertions must translate "
            "synthetic audit-log JSON into the documented tuples.",
            "trusted: the contradiction rules in checks/c20.py (same definitions as vlib/irv.py); n <= 5 quick, 6 thorough",
            "DESIGN.md section 4, C20"),
    "C03": ("reference-model monitor over whole simulated (CVR, MVR) populations: the real overstatement assorter, real margins and real pool means vs oracle-computed A_i",
            "Exploration by runtime monitoring: the election simulator builds CVRs, pools, phantoms (inside and outside pools) "
            "and manual records with arbitrary discrepancies, drives the library's own workflow (add_pool_contests, "
            "make_phantoms, make_all_assertions, set_all_margins_from_cvrs, set_tally_pool_means) and evaluates the real "
            "overstatement_assorter on every card under audit; mean(B)-1/2 must equal (2 mean(A)-1)/(2(2u-v)) with A_i from "
            "reference assorters. A conservation check of the CVR-side scores localises a failure.",
            "trusted: the reference assorters in vlib/election.py (cross-checked by C02/C14); coherent pool labelling; "
            "add_pool_contests applied under style",
            "DESIGN.md section 4, C03"),
    "C06": ("runtime contracts (postconditions) on the real Assertion.mvrs_to_data, set_p_values, set_margin_from_cvrs, set_all_margins_from_cvrs during simulated audits",
            "Exploration by runtime monitoring: the contracts check on every call that each datum lies in [0,u], that u is the "
            "assorter bound (polling) or 2/(2-v/u_a) (comparison, ONEAudit), that under style exactly the cards whose CVR "
            "lists the contest and whose sample number is within the threshold contribute, in order, and that test.u equals "
            "that u after set_p_values / margin setting. Workload: simulated audits with maximal over/understatements, "
            "phantoms, missing contests, pooled CVRs, super-majority shares 0.1-0.9 (u_a up to 5), IRV, all audit types.",
            "trusted: numpy; the sample threshold has been set by a draw before data are built under style",
            "DESIGN.md section 4, C06"),
    "C07": ("runtime contract on the real CVR.consistent_sampling vs a 10-line reference sampler; follow-up data check; determinism and vote-independence (metamorphic) monitors",
            "Exploration by runtime monitoring: on simulated style-based elections (all/disjoint/nested/random styles, cards "
            "listing no contest, phantoms; SHA256 and adversarial sample numbers incl. 0; size vectors ones/all/one-exhausted/"
            "random) the contract compares the returned indices, their order, every threshold and the sampled flags with the "
            "reference; the same history is continued through prep_comparison_sample and mvrs_to_data, which must hand each "
            "contest exactly its first n_c cards in order; sample numbers must depend on (seed, position) only and the "
            "selection only on styles.",
            "trusted: the reference sampler in checks/c07.py; distinct sample numbers; n_c <= cards listing c",
            "DESIGN.md section 4, C07"),
    "C08": ("runtime contract on the real CVR.make_phantoms (snapshot + accounting) and history monitor of phantom scoring over every simulated (mvr, cvr) pair",
            "Exploration by runtime monitoring: the contract checks per-contest and total accounting, unchanged-and-first "
            "originals, unique ids, the phantom-count ceiling and contest.cvrs for every combination of per-contest shortfalls "
            "(zero after positive, all different, unspecified bounds), style on and off, pooled and unpooled phantoms; for "
            "every pair of the simulated audit the real overstatement assorter with a phantom MVR must not exceed the real "
            "one and must differ from it by exactly the manual record's reference score; unpooled phantom CVRs score 1/2.",
            "trusted: reference assorters; bounds >= CVR counts; input lists without phantoms",
            "DESIGN.md section 4, C08"),
    "C09": ("runtime contracts on the real set_p_values (recomputation with an independent copy of each configured test), summarize_status and reset_p_values over multi-call audit histories",
            "Exploration by runtime monitoring: before every set_p_values call each assertion's test object is deep-copied; "
            "afterwards the copy is run on mvrs_to_data's output and must reproduce the recorded p-value and history; contest "
            "maxima, the returned maximum, the sticky proved flag and the contest dictionaries are checked; summarize_status "
            "must equal the conjunction over all assertions with each contest's own limit (1-4 contests, different limits, "
            "p exactly at the limit via Kaplan-Markov on dyadic data, same-length re-reads without reset); reset must restore "
            "p=1, empty history, unproved; check_audit_parameters must reject injected invalid parameters.",
            "trusted: copy.deepcopy of NonnegMean objects (bound methods are re-bound to the copy)",
            "DESIGN.md section 4, C09"),
    "C10": ("history monitor over recorded multi-round audit histories (redraw and continue variants run side by side on copies of one simulated election)",
            "Exploration by runtime monitoring: 2-5 rounds of non-decreasing per-contest sizes (incl. a contest that finishes "
            "early and grows later, unchanged rounds, full hand counts) are driven through the real consistent_sampling, "
            "prep_comparison_sample, mvrs_to_data and set_p_values; recorded selections must be nested, every assertion's data "
            "vector must be the previous one with observations appended, p-values must not increase and confirmations must "
            "persist; the continued sample must equal the redrawn one in content, order and thresholds every round.",
            "trusted: the simulator's no-style draw (first n cards in sample-number order); polling only without style",
            "DESIGN.md section 4, C10"),
    "C16": ("reference-model monitor: the documented hypothetical population is built independently and the real test run on it; first-crossing oracle; prefix, maxima and interleave monitors",
            "Exploration by runtime monitoring: NonnegMean.sample_size is compared with the first crossing of the real test "
            "on the pilot data tiled to N (non-constant pilots whose length does not divide N, every test/estimator, "
            "random_order on and off); Assertion.find_sample_size with the documented comparison and polling populations; "
            "simulation-based estimates with a crossing prefix must equal the crossing index for any reps/quantile/seed; "
            "Contest/Audit estimates must be the largest per-assertion estimate (recorded by a contract); interleave_values "
            "must return the requested counts.",
            "trusted: numpy; int(1/r) spacing; rates passed explicitly; crossing of a prefix is read off a history that "
            "continues beyond it",
            "DESIGN.md section 4, C16"),
}

# strata and monitors added after the rounds of independently seeded changes (DESIGN.md 7.4), appended to the level text
WIDENED = {
    "C01": "Also: cells evaluated with a look after every draw on one re-used buffer; u < 1; narrow integer dtypes; re-used test objects.",
    "C02": "Also: write-in-only ballots, card counts revised after the assertions were made, constructors called twice, the style-on mean re-taken after all cards were scored.",
    "C03": "Also: CVRs revised in place and margins recomputed on the same objects; the population under audit compared with a reference (falsy pool labels included).",
    "C04": "Also: Contest objects re-used across runs, ballot mappings stored in any order, rank numbers with holes, integer contest identifiers.",
    "C05": "Also: the growth factor on draw k+1 must be affine in that draw (decides tests whose alternative is not exposed); long samples beyond the double range.",
    "C06": "Also: stale test bounds and margins revised after they were set; the bound held when each test method is entered.",
    "C07": "Also: second, third and continued draws on the same Contest objects (sizes lowered, zero, raised), re-assigned sample numbers.",
    "C08": "Also: a second call with a revised bound, phantom CVRs carrying votes, pooled phantoms against reference batch means, an audit-wide max_cards differing from the stratum bound.",
    "C09": "Also: stale bounds in the test objects before the call, tests configured with random_order=False, IRV parameter injections.",
    "C10": "Also: histories after a dry run with other sample numbers, fine-grained escalation of noisy polling audits, histories of random_order=False tests (kept confirmations).",
    "C11": "Also: u < 1, narrow integer dtypes (uint8, int8, int32, bool), objects built with another u or warmed up with another N or sample, long samples (600-2500 draws, u up to 10).",
    "C12": "Also: strict final-sample rule at the last index, non-dyadic boundary neighbourhoods, early-wins-then-zeros census samples, long samples with saturating reference products.",
    "C13": "Also: u < 1 for every estimator and bet, narrow integer dtypes, samples a hair around t.",
    "C14": "Also: ballots on one long-lived record (assigned / merged), storage order of the votes dict varied, non-ASCII names in reader files, integer contest identifiers.",
    "C15": "Also: re-used Contest objects, storage order, rank holes, hints right and wrong.",
    "C16": "Also: ONEAudit audit- and contest-level estimates, the same polling assertion asked again after its tally was revised, super-majority comparison populations.",
    "C17": "Also: manifests with offset / permuted row labels, a second lookup in the same prepared manifest, zero-padded card numbers in CVR identifiers.",
    "C18": "Also: falsy tally-pool labels, CSV-quoted names, 10-25 contests per file, votes objects shared between records (and the constructor's default object probed).",
    "C19": "Also: image-mask prefixes, adjudicated blocks in the other layout than their session's original block, blocks covering proper subsets of contests.",
    "C20": "Also: ambiguous (substring) identifiers, multi-contest logs, duplicates differing in the proved flag, the rendered tag of every pruned node parsed and compared.",
}

PENDING_REASON = ("check designed in DESIGN.md section 4 but not yet built in this session; "
                  "not claimed until its monitor has been run on the unchanged tree")


def main():
    props = [json.loads(l) for l in open(os.path.join(HERE, "properties.jsonl"))]
    checks, na = [], []
    for p in props:
        pid = p["id"]
        if pid in CHECKS and os.path.exists(os.path.join(HERE, "checks", pid.lower() + ".py")):
            tech, text, note, ref = CHECKS[pid]
            text = text + " " + WIDENED.get(pid, "")
            checks.append({
                "property_id": pid,
                "quick_cmd": f"./check {pid} --tier quick",
                "thorough_cmd": f"./check {pid} --tier thorough",
                "evidence_file": f"evidence/{pid}.json",
                "replay_cmd_template": f"./check {pid} --replay {{path}}",
                "engine": "vlib",
                "level_claimed": {"category": "exploration", "text": text, "design_ref": ref},
                "level_note": note,
                "technique": tech,
            })
        else:
            na.append({"property_id": pid, "reason": PENDING_REASON})
    man = {
        "version": 1,
        "setup_cmd": "./setup.sh",
        "hooks": {
            "guard": "SHANGRLA_VERIF",
            "enable": "no repository hooks are needed: monitors are installed from /verif by wrapping attributes of "
                      "the real classes (vlib.contracts.wrap) and by a sys.settrace frame probe; the variable is "
                      "reserved and unused",
            "baseline_off_cmd": BASELINE_OFF,
            "source_commits": [],
            "add_only": True,
        },
        "engines": [{
            "name": "vlib",
            "path": "vlib/",
            "serves_properties": [c["property_id"] for c in checks],
            "kind_free_text": "runtime monitoring: contracts on real functions, reference-model monitors, history "
                              "monitors, exact-count monitors, frame-local probe; sharded over subprocesses",
        }],
        "checks": checks,
        "notes": "All checks run the real code from /repo's working tree under /venv/bin/python; exit 0 held / 1 "
                 "violation / 2 inconclusive. Known findings: known_findings.txt (fixed: lines record repaired "
                 "defects and suppress nothing).",
        "not_applicable": na,
    }
    path = os.path.join(HERE, "MANIFEST.json")
    with open(path, "w") as f:
        json.dump(man, f, indent=1)
        f.write("\n")
    try:
        import jsonschema
        schema = json.load(open("/root/.vp/MANIFEST.schema.json"))
        jsonschema.validate(man, schema)
        print("MANIFEST.json valid;", len(checks), "checks,", len(na), "not_applicable")
    except ImportError:
        print("MANIFEST.json written (jsonschema not importable here);", len(checks), "checks")


if __name__ == "__main__":
    main()
