#!/venv/bin/python
"""Regenerate MANIFEST.json from the table below (and validate it against the schema if jsonschema is available)."""
import json
import os
import sys

HERE = os.path.dirname(os.path.dirname(os.path.abspath(__file__)))

BASELINE_OFF = ("cd /repo && env -u SHANGRLA_VERIF /venv/bin/python -m pytest -ra -q -p no:cacheprovider "
                "--timeout=900 --continue-on-collection-errors")

# id -> (technique, level text, level note, design ref)
CHECKS = {
    "C11": ("runtime contract (postcondition) on the six real NonnegMean test methods under stratified hostile samples",
            "Exploration by runtime monitoring: a postcondition installed on the real alpha_mart, betting_mart, "
            "kaplan_kolmogorov, kaplan_markov, kaplan_wald and wald_sprt checks length, NaN-freedom, range and "
            "overall-vs-history agreement on every call; the workload walks the boundary regimes the property names "
            "(length 1, all-zero, all-u, all equal to t, total > N t at first/middle/last draw, null mean at 0/u/"
            "beyond, tiny margins) for every shipped estimator/bet, finite and infinite N, random_order on and off. "
            "Held on the executions observed, not a proof.",
            "trusted: numpy; documented domain exclusions listed in DESIGN.md C11 (finite-N SPRT with random_order="
            "False, Kaplan-Markov/Wald with finite N, optimal_comparison with u<=1); samples are dyadic floats",
            "DESIGN.md section 4, C11"),
}

PENDING_REASON = ("check designed in DESIGN.md section 4 but not yet built in this session; "
                  "not claimed until its monitor has been run on the unchanged tree")


def main():
    props = [json.loads(l) for l in open(os.path.join(HERE, "properties.jsonl"))]
    checks, na = [], []
    for p in props:
        pid = p["id"]
        if pid in CHECKS and os.path.exists(os.path.join(HERE, "checks", pid.lower() + ".py")):
            tech, text, note, ref = CHECKS[pid]
            checks.append({
                "property_id": pid,
                "quick_cmd": f"./check {pid} --tier quick",
                "thorough_cmd": f"./check {pid} --tier thorough",
                "evidence_file": f"evidence/{pid}.json",
                "replay_cmd_template": f"./check {pid} --replay {{path}}",
                "engine": "vlib",
                "level_claimed": {"category": "exploration", "text": text, "design_ref": ref},
                "level_note": note,
                "technique": tech,
            })
        else:
            na.append({"property_id": pid, "reason": PENDING_REASON})
    man = {
        "version": 1,
        "setup_cmd": "./setup.sh",
        "hooks": {
            "guard": "SHANGRLA_VERIF",
            "enable": "no repository hooks are needed: monitors are installed from /verif by wrapping attributes of "
                      "the real classes (vlib.contracts.wrap) and by a sys.settrace frame probe; the variable is "
                      "reserved and unused",
            "baseline_off_cmd": BASELINE_OFF,
            "source_commits": [],
            "add_only": True,
        },
        "engines": [{
            "name": "vlib",
            "path": "vlib/",
            "serves_properties": [c["property_id"] for c in checks],
            "kind_free_text": "runtime monitoring: contracts on real functions, reference-model monitors, history "
                              "monitors, exact-count monitors, frame-local probe; sharded over subprocesses",
        }],
        "checks": checks,
        "notes": "All checks run the real code from /repo's working tree under /venv/bin/python; exit 0 held / 1 "
                 "violation / 2 inconclusive. Known findings: known_findings.txt (fixed: lines record repaired "
                 "defects and suppress nothing).",
        "not_applicable": na,
    }
    path = os.path.join(HERE, "MANIFEST.json")
    with open(path, "w") as f:
        json.dump(man, f, indent=1)
        f.write("\n")
    try:
        import jsonschema
        schema = json.load(open("/root/.vp/MANIFEST.schema.json"))
        jsonschema.validate(man, schema)
        print("MANIFEST.json valid;", len(checks), "checks,", len(na), "not_applicable")
    except ImportError:
        print("MANIFEST.json written (jsonschema not importable here);", len(checks), "checks")


if __name__ == "__main__":
    main()
