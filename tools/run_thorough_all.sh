#!/bin/bash
# run every check's thorough tier sequentially (for vp run); VERIF_SEED honoured
for c in C01 C02 C03 C04 C05 C06 C07 C08 C09 C10 C11 C12 C13 C14 C15 C16 C17 C18 C19 C20; do
  s=$(date +%s)
  out=$(./check $c --tier thorough 2>&1); rc=$?
  echo "== $c rc=$rc $(( $(date +%s) - s ))s"
  echo "$out" | grep -E "^\[|^  violation|^VIOLATION|^INCONCLUSIVE|^KNOWN" | cut -c1-400
done
