#!/bin/bash
# tools/rebase_patch.sh <dir-with-patch.diff> : re-create patch.diff against /repo HEAD.  Finds the newest /repo commit
# the patch applies to, commits it there in a scratch worktree and cherry-picks the commit onto HEAD.  On conflict the
# worktree is left in /tmp/rebase-<name> for manual resolution (then: git -C <wt> diff HEAD~0 ... see message).
d=$(readlink -f "$1"); name=$(basename "$d")
wt=/tmp/rebase-$name; git -C /repo worktree remove --force $wt 2>/dev/null; rm -rf $wt
base=""
for c in $(git -C /repo log --format=%h -n 40); do
  git -C /repo worktree add -q --detach $wt $c || exit 3
  if git -C $wt apply --check "$d/patch.diff" 2>/dev/null; then base=$c; break; fi
  git -C /repo worktree remove --force $wt
done
[ -z "$base" ] && { echo "$name: applies to no recent commit"; exit 3; }
git -C $wt apply "$d/patch.diff" && git -C $wt -c user.name=x -c user.email=x@x commit -qam mutant
m=$(git -C $wt rev-parse HEAD)
git -C $wt checkout -q --detach $(git -C /repo rev-parse HEAD)
if git -C $wt -c user.name=x -c user.email=x@x cherry-pick $m >/dev/null 2>&1; then
  git -C $wt diff HEAD~1 HEAD -- shangrla > "$d/patch.diff"; echo "$name: rebased from $base"
  git -C /repo worktree remove --force $wt
else
  echo "$name: CONFLICT (base $base) - resolve in $wt, then: git -C $wt diff HEAD -- shangrla > $d/patch.diff; git -C /repo worktree remove --force $wt"
  git -C $wt diff --name-only --diff-filter=U
fi
