#!/venv/bin/python
"""tools/harvest.py <worktree> <property> <seeded-name> : verify a sub-agent's mutant independently and keep it.

Checks, in a fresh throw-away worktree of /repo HEAD (never /repo itself):
  - the patch applies; the pinned suite passes with it (55 passed)
  - demo.py exits 0 on the unchanged tree and non-zero on the patched tree
Then copies patch.diff, demo.py, notes.md to /verif/seeded/<name>/ and writes meta.json.
"""
import json, os, shutil, subprocess, sys, tempfile

wt_src, prop, name = sys.argv[1:4]
src = os.path.join(wt_src, "_mutant")
patch = os.path.join(src, "patch.diff")
demo = os.path.join(src, "demo.py")
assert os.path.exists(patch) and os.path.exists(demo), "missing patch.diff/demo.py"
wt = tempfile.mkdtemp(prefix="harv-", dir="/tmp"); os.rmdir(wt)
subprocess.run(["git", "-C", "/repo", "worktree", "add", "-q", wt, "HEAD"], check=True)
res = {}
try:
    env = dict(os.environ, PYTHONPATH=wt, PYTHONDONTWRITEBYTECODE="1")
    r0 = subprocess.run(["/venv/bin/python", demo], cwd=wt, env=env, capture_output=True, text=True, timeout=1800)
    res["demo_unchanged_rc"] = r0.returncode
    ap = subprocess.run(["git", "-C", wt, "apply", patch], capture_output=True, text=True)
    res["applies"] = ap.returncode == 0
    if not res["applies"]:
        print(ap.stderr)
    r1 = subprocess.run(["/venv/bin/python", demo], cwd=wt, env=env, capture_output=True, text=True, timeout=1800)
    res["demo_patched_rc"] = r1.returncode
    res["demo_patched_tail"] = (r1.stdout + r1.stderr)[-400:]
    st = subprocess.run(["/venv/bin/python", "-m", "pytest", "-q", "-p", "no:cacheprovider", "--timeout=900"],
                        cwd=wt, env=env, capture_output=True, text=True, timeout=1800)
    res["suite_tail"] = st.stdout.strip().splitlines()[-1] if st.stdout.strip() else st.stderr[-200:]
finally:
    subprocess.run(["git", "-C", "/repo", "worktree", "remove", "--force", wt])
    shutil.rmtree(wt, ignore_errors=True)
ok = res.get("applies") and res["demo_unchanged_rc"] == 0 and res["demo_patched_rc"] != 0 and "55 passed" in res["suite_tail"]
print(json.dumps(res, indent=1))
print("CONFIRMED" if ok else "REJECTED")
if ok:
    dst = os.path.join("/verif/seeded", name)
    os.makedirs(dst, exist_ok=True)
    for f in ("patch.diff", "demo.py", "notes.md"):
        if os.path.exists(os.path.join(src, f)):
            shutil.copy(os.path.join(src, f), os.path.join(dst, f))
    meta = {"property": prop, "origin": "independent sub-agent given only the property text and a scratch worktree",
            "needs_to_manifest": "see notes.md", "confirmed": {
                "suite_with_patch": res["suite_tail"], "demo_on_unchanged_tree_rc": res["demo_unchanged_rc"],
                "demo_on_patched_tree_rc": res["demo_patched_rc"],
                "how": "tools/harvest.py: fresh worktree of /repo HEAD, PYTHONPATH override, pinned pytest command"},
            "caught_by": []}
    json.dump(meta, open(os.path.join(dst, "meta.json"), "w"), indent=1)
