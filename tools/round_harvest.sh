#!/bin/bash
# tools/round_harvest.sh <round> : harvest every finished sub-agent mutant of a round (/tmp/w<r>-CXX/_mutant) that has
# not been harvested yet, then run the matrix on the newly harvested ones
r=$1; new=""
for i in $(seq -w 1 20); do
  p=C$i; d=/tmp/w$r-$p/_mutant
  if [ -f $d/patch.diff ] && [ -f $d/demo.py ] && [ -f $d/notes.md ] && [ ! -d /verif/seeded/$p-a$r ]; then
    res=$(/verif/tools/harvest.py /tmp/w$r-$p $p $p-a$r | tail -1); echo "$p-a$r: $res"
    [ "$res" = "CONFIRMED" ] && new="$new $p-a$r"
  fi
done
[ -n "$new" ] && /verif/tools/matrix.py $new 2>&1 | grep -v "^$"
