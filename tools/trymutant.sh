#!/bin/bash
# tools/trymutant.sh <patch.diff> <ID> [<ID>...]   [TIER=quick]
# Applies a patch to a throw-away worktree of /repo HEAD (never to /repo), runs the named checks against it
# (SHANGRLA_REPO), optionally the repository's own suite (SUITE=1), then removes the worktree.
patch=$(readlink -f "$1"); shift
tier=${TIER:-quick}
wt=$(mktemp -d /tmp/mut-XXXXXX)
rmdir "$wt"
git -C /repo worktree add -q "$wt" HEAD || exit 3
trap 'git -C /repo worktree remove --force "$wt" 2>/dev/null; rm -rf "$wt"' EXIT
if ! git -C "$wt" apply "$patch"; then echo "PATCH DOES NOT APPLY"; exit 3; fi
if [ -n "$SUITE" ]; then
  (cd "$wt" && PYTHONPATH="$wt" /venv/bin/python -m pytest -q -p no:cacheprovider --timeout=900 2>&1 | tail -1)
fi
cd /verif
for id in "$@"; do
  out=$(SHANGRLA_REPO="$wt" ./check "$id" --tier "$tier" 2>&1); rc=$?
  echo "== $id rc=$rc: $(echo "$out" | grep -c '^VIOLATION') VIOLATION line(s)"
  echo "$out" | grep -E "^  violation|^INCONCLUSIVE|^KNOWN" | cut -c1-260 | head -${SHOW:-6}
done
