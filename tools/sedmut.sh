#!/bin/bash
# tools/sedmut.sh <file-relative-to-repo> <sed-expression> <ID> [<ID>...]
# One-line mutant: apply a sed expression to a throw-away worktree of /repo HEAD, run the suite (SUITE=1) and checks.
f=$1; expr=$2; shift 2
wt=$(mktemp -d /tmp/sm-XXXXXX); rmdir "$wt"
git -C /repo worktree add -q "$wt" HEAD || exit 3
trap 'git -C /repo worktree remove --force "$wt" 2>/dev/null; rm -rf "$wt"' EXIT
sed -i -E "$expr" "$wt/$f"
n=$(git -C "$wt" diff --stat | tail -1)
if [ -z "$n" ]; then echo "SED DID NOT CHANGE ANYTHING"; exit 3; fi
git -C "$wt" diff -U0 | grep -E '^[-+][^-+]' | cut -c1-160
if [ -n "$SUITE" ]; then (cd "$wt" && PYTHONPATH="$wt" /venv/bin/python -m pytest -q -p no:cacheprovider --timeout=900 2>&1 | tail -1); fi
cd /verif
for id in "$@"; do
  out=$(SHANGRLA_REPO="$wt" ./check "$id" --tier ${TIER:-quick} 2>&1); rc=$?
  echo "== $id rc=$rc: $(echo "$out" | grep -c '^VIOLATION') VIOLATION line(s)"
  echo "$out" | grep -E "^  violation|^INCONCLUSIVE" | cut -c1-220 | head -${SHOW:-3}
done
