#!/venv/bin/python
"""tools/prep_round.py <round-number> : create scratch worktrees /tmp/w<r>-C01..C20 of /repo HEAD, each with
_PROPERTY.txt (the property text only - nothing from /verif's checks) and _TASK.md (tools/mutant_task_template.md with the
worktree path and the list of places earlier sub-agents already used, tools/mutant_avoid.json)."""
import json, os, subprocess, sys
r = sys.argv[1]
here = os.path.dirname(os.path.abspath(__file__))
tmpl = open(os.path.join(here, "mutant_task_template.md")).read()
avoid = json.load(open(os.path.join(here, "mutant_avoid.json")))
for l in open(os.path.join(here, "..", "properties.jsonl")):
    p = json.loads(l); pid = p["id"]; d = f"/tmp/w{r}-{pid}"
    if not os.path.isdir(d):
        subprocess.run(["git", "-C", "/repo", "worktree", "add", "-q", d, "HEAD"], check=True)
    txt = (f"PROPERTY {pid}: {p['title']}\n\nSTATEMENT\n{p['statement']}\n\nQUANTIFIED OVER\n{p['quantifier']['text']}\n\n"
           f"WHY THE EXISTING TESTS CANNOT SETTLE IT\n{p['why_tests_cant']}\n\nWHERE THE MECHANISM LIVES (anchors)\n"
           f"files: {', '.join(p['anchors']['files'])}\n" + "\n".join(f"- {m['name']}  [{m['where']}]" for m in p["anchors"]["mechanism"]) + "\n")
    open(f"{d}/_PROPERTY.txt", "w").write(txt)
    open(f"{d}/_TASK.md", "w").write(tmpl.replace("@@WT@@", d).replace("@@AVOID@@", avoid[pid]))
print("prepared round", r)
