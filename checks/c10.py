"""C10 — escalation only ever extends the evidence.

History monitor over 2-5 audit rounds with non-decreasing per-contest sample sizes (same CVRs, sample numbers and manual
records throughout), in two variants run on separate copies of the same election:
   redraw    sampled_cvr_indices=None every round (what the notebooks do)
   continue  sampled_cvr_indices=<previous round's return>
Recorded per round: the return of the real consistent_sampling, every assertion's mvrs_to_data output, (p_value, proved)
after the real set_p_values.  Relations checked:
  c10.superset   set(sel_r) is a subset of set(sel_{r+1})
  c10.append     d_r == d_{r+1}[:len(d_r)] for every assertion
  c10.monotone   p_{r+1} <= p_r and proved_r => proved_{r+1}
  c10.continue   the continued sample equals the redrawn one (as a set, and in order) and every contest threshold agrees
"""
import contextlib
import copy
import io
import math
import random

import numpy as np

from checks.c06 import gen_sizes
from vlib import election as E

RULE = ("audit histories: simulated election x 2-5 rounds of non-decreasing size vectors (incl. a contest that finishes "
        "early and grows later, rounds where nothing changes, a contest going to a full hand count) x {redraw, continue}; "
        "non-trivial = style-based, >= 2 contests with different styles, and some round added a card with a smaller sample "
        "number than a card already selected; distinct = hash of (spec, size vectors)")
REQUIRED = ["histories", "rounds:redraw", "rounds:continue", "append_checked", "monotone_checked", "continue_equals_redraw_checked",
            "round_adds_card_before_already_selected", "round_without_change", "contest_full_hand_count", "style_on", "style_off",
            "p_decreased", "proved_carried_over", "fine_grained_histories", "histories_after_a_dry_run",
            "confirmed_earlier_and_risk_now_above_limit", "histories_starting_with_construction_time_bounds_in_the_tests",
            "histories_through_the_point_where_the_clean_total_equals_N_t", "planning_call_from_assumed_rates_between_rounds", "rounds:mixed",
            "histories_in_which_a_contest_starts_in_a_later_round",
            "continued_draws_handed_only_the_contests_that_grow",
            "histories_whose_tests_are_configured_for_sampling_with_replacement"]
ASSUMPTIONS = ["the 'measured risk is non-increasing' clause is asserted for tests configured with random_order=True (the "
               "factories' setting); for random_order=False the overall value is the last history entry, so only the "
               "append clause and the kept confirmation are asserted there", "polling is only generated without style (the library gives it the whole sample); without style the sample "
               "is the first n cards in sample-number order, so the append clause is well-defined there too"]
N_CASES = {"quick": 8000, "thorough": 64000}


def plan(tier, seed):
    shards = 16
    return [{"n": N_CASES[tier] // shards, "shard": i} for i in range(shards)]


def gen_rounds(rng, sim):
    cids = list(sim.contests)
    avail = {cid: (sum(1 for c in sim.cvr_list if c.has_contest(cid)) if sim.use_style else len(sim.cvr_list)) for cid in cids}
    R = rng.randint(2, 5)
    cur = {cid: rng.randint(1, max(1, avail[cid] // 2)) for cid in cids}
    pattern = rng.choice(("grow_all", "one_at_a_time", "late_grower", "no_change_round", "full_hand_count", "late_starter"))
    if pattern == "late_starter" and sim.use_style and len(cids) >= 2:
        cur[cids[-1]] = 0      # a contest whose audit starts in a later round (nothing drawn for it at first)
    rounds = [dict(cur)]
    for r in range(1, R):
        nxt = dict(cur)
        if pattern == "no_change_round" and r == 1:
            pass
        elif pattern == "one_at_a_time":
            c = cids[r % len(cids)]
            nxt[c] = min(avail[c], cur[c] + rng.randint(1, 4))
        elif pattern == "late_grower":
            # the first contest stays put while the others grow, then it grows at the end
            for j, c in enumerate(cids):
                if (j == 0) == (r == R - 1):
                    nxt[c] = min(avail[c], cur[c] + rng.randint(1, 5))
        elif pattern == "full_hand_count" and r == R - 1:
            c = rng.choice(cids)
            nxt[c] = avail[c]
        else:
            for c in cids:
                nxt[c] = min(avail[c], cur[c] + rng.randint(0, 4))
        if not sim.use_style:
            m = max(nxt.values())
            nxt = {c: m for c in nxt}
        rounds.append(nxt)
        cur = nxt
    if not sim.use_style:
        m0 = max(rounds[0].values())
        rounds[0] = {c: m0 for c in rounds[0]}
        for r in range(1, len(rounds)):
            m = max(max(rounds[r].values()), max(rounds[r - 1].values()))
            rounds[r] = {c: m for c in rounds[r]}
    return rounds


def run_shard(spec, rec):
    rng = random.Random(f"c10-{spec['seed']}-{spec['shard']}")
    for i in range(spec["n"]):
        es = E.gen_spec(rng, n_contests=rng.choice((1, 2, 2, 3, 4)), n_cards=rng.choice((8, 12, 20, 30, 45)),
                        error_rate=rng.choice((0, 0.05, 0.3)), style=(True if i % 4 else False))
        if i % 5 == 4:
            # fine-grained escalation of a noisy polling audit with a variance-driven bet/estimator: many rounds of 1-3
            # extra cards, so that any retroactive change of earlier bets has a chance to move the running minimum
            es = E.gen_spec(rng, n_contests=1, n_cards=rng.choice((40, 60)), kinds=("plurality",), style=False,
                            audit_types=("POLLING",), error_rate=0, phantom_rate=0, allow_wrong=False)
            con = es["contests"]["con1"]
            if rng.random() < 0.5:
                con.update(test="betting_mart", estim=None, bet="agrapa", test_kwargs={"c_grapa_0": 0.75, "c_grapa_grow": 1})
            else:
                con.update(test="alpha_mart", estim="shrink_trunc", bet=None, test_kwargs={"d": 10, "f": rng.choice((0.25, 1.0)), "c": 0.125, "eta": rng.choice((0.5625, 0.625, 0.75))})  # eta from a reported margin (the default, u(1-eps), makes the first estimates insensitive to f)
            es["_fine"] = rng.randint(6, 12)
        if i % 20 == 19:
            es = tie_point_spec(rng)
        es["_rseed"] = rng.randrange(10 ** 9)
        es["_dry_run"] = rng.random() < 0.3
        es["_fixed_order_tests"] = rng.random() < 0.15
        es["_margins_not_via_cvrs"] = rng.random() < 0.25
        run_case(es, rec)


def tie_point_spec(rng):
    """A two-candidate comparison audit taken to a (nearly) full hand count.  All cards but the last d = (W-L)/2 in sample
    order are read exactly as their CVRs say; the last d, CVR for the winner, are found to be for the loser.  After
    n = N - d clean cards the observed total of the (non-dyadic) overstatement-assorter values equals N t exactly in
    real arithmetic: the remaining cards could still make it a tie.  Rounds: a small sample, n, N.  Any disagreement
    between the ways a running total is rounded shows up as a certainty (p = 0) that is withdrawn in the next round."""
    N = rng.choice((20, 40, 80, 120))
    d = rng.choice((1, 1, 2, 3))
    es = E.gen_spec(rng, n_contests=1, n_cards=N, kinds=("plurality",), style=False, audit_types=("CARD_COMPARISON",),
                    error_rate=0, phantom_rate=0, allow_wrong=False)
    con = es["contests"]["con1"]
    w, l = con["candidates"][0], con["candidates"][1]
    con.update(winner=[w], n_winners=1, cards=N)
    es["max_cards"] = N
    es["audit_max_cards"] = None
    W = N // 2 + d
    votes = [{w: 1}] * (W - d) + [{l: 1}] * (N - W)
    rng.shuffle(votes)
    votes = votes + [{w: 1}] * d
    for cd, v in zip(es["cards"], votes):
        cd["votes"] = {"con1": dict(v)}
        cd["pool"] = False
    es["mvrs"] = {str(N - 1 - j): {"kind": "votes", "votes": {"con1": {l: 1}}} for j in range(d)}
    es["sample_nums"] = {"kind": "explicit", "nums": None}
    es["sn_mode"], es["sn_step"] = "list_order", 1
    es.pop("sn_base", None)
    n1 = rng.randint(2, N // 2)
    es["_rounds"] = [{"con1": n1}, {"con1": N - d}, {"con1": N}]
    es["_tie_point"] = True
    return es


def run_variant(es, rounds, variant, rec):
    sim = E.Sim(copy.deepcopy(es)).setup()
    sim.assign_sample_nums()
    if es.get("_dry_run"):
        # a dry run on the same list with other sample numbers (reversed), before the real numbers are assigned
        real = [c.sample_num for c in sim.cvr_list]
        for c, v in zip(sim.cvr_list, reversed(real)):
            c.sample_num = v
        sim.set_sizes(rounds[0])
        rec.guard("c10.call:consistent_sampling:dry_run", sim.draw, None)
        for c, v in zip(sim.cvr_list, real):
            c.sample_num = v
            c.sampled = False
        for con in sim.contests.values():
            con.sample_threshold = None
        rec.count("histories_after_a_dry_run")
    if es.get("_margins_not_via_cvrs") and variant == "redraw":
        rec.count("histories_starting_with_construction_time_bounds_in_the_tests")
    A = sim.L["Assertion"]
    if es.get("_fixed_order_tests"):
        # tests configured for data that are not in random order: the measured risk is the LAST history entry and may
        # rise with more data; what must still hold is that the data are extended and that a confirmation is kept
        for con in sim.contests.values():
            for asn in con.assertions.values():
                if getattr(asn.test.test, "__name__", "") != "wald_sprt":
                    asn.test.random_order = False
    if es.get("_with_replacement"):
        # the risk functions configured for sampling WITH replacement (N = infinity: a conservative choice some audits make,
        # and what a directly constructed test defaults to); Kaplan-Kolmogorov has no such form and keeps its N
        for con in sim.contests.values():
            for asn in con.assertions.values():
                if getattr(asn.test.test, "__name__", "") != "kaplan_kolmogorov":
                    asn.test.N = np.inf
    if es.get("_margins_not_via_cvrs"):
        # margins taken by a route that does not write the bound into the test objects (reported tallies, direct
        # assignment): the tests still hold their construction-time bound when the first round is evaluated
        for con in sim.contests.values():
            for asn in con.assertions.values():
                asn.test.u = 1.0
    hist = []
    prev = None
    sink = io.StringIO()
    for sizes in rounds:
        sim.set_sizes(sizes)
        cont = variant == "continue" or (variant == "mixed" and len(hist) % 2 == 1)   # mixed: redraw, continue, redraw, ...
        only = None
        if cont and prev is not None and variant == "mixed" and sim.use_style and hist:
            # only the contests whose size grows are handed to the continued draw (the others are done for now): the
            # cards already drawn stay in the sample whatever contests they carry
            grown = [cid for cid in sizes if sizes[cid] > hist[-1]["sizes"].get(cid, 0)]
            if grown and len(grown) < len(sizes):
                only = set(grown)
                rec.count("continued_draws_handed_only_the_contests_that_grow")
        ok, idx = rec.guard(f"c10.call:consistent_sampling:{variant}", sim.draw, (list(prev) if (cont and prev is not None) else None), only)
        if not ok:
            return None, sim
        idx = [int(i) for i in idx]
        ok, ms = rec.guard("c10.call:samples", sim.samples, list(idx))
        if not ok:
            return None, sim
        m, c = ms
        data = {}
        with np.errstate(all="ignore"), contextlib.redirect_stdout(sink):
            # (a contest for which nothing has been drawn yet is not evaluated: it has no data and no threshold)
            active = {cid: con for cid, con in sim.contests.items() if sizes.get(cid, 1) > 0}
            for cid, con in active.items():
                for name, asn in con.assertions.items():
                    ok, du = rec.guard("c10.call:mvrs_to_data", asn.mvrs_to_data, m, c)
                    if not ok:
                        return None, sim
                    data[(cid, name)] = [float(x) for x in du[0]]
            ok, _ = rec.guard("c10.call:set_p_values", A.set_p_values, active, m, c)
            if not ok:
                return None, sim
        pv = {(cid, name): (float(asn.p_value), bool(asn.proved)) for cid, con in sim.contests.items() for name, asn in con.assertions.items()}
        thr = {cid: con.sample_threshold for cid, con in sim.contests.items()}
        hist.append({"sel": idx, "data": data, "pv": pv, "thr": thr, "sizes": dict(sizes)})
        prev = idx
        rec.count(f"rounds:{variant}")
        if es.get("_plan_between") and sim.use_style and not es.get("_with_replacement"):   # (planning needs a finite N)
            # a planning question between rounds, from assumed error rates rather than from the data (what one asks
            # when deciding how far to escalate); asking it must not change how the evidence is evaluated afterwards
            sim.audit.error_rate_2 = es["_plan_between"]["rate_2"]
            sim.audit.error_rate_1 = es["_plan_between"]["rate_1"]
            with np.errstate(all="ignore"), contextlib.redirect_stdout(sink):
                try:
                    sim.audit.find_sample_size(sim.contests, sim.cvr_list)
                    rec.count("planning_call_from_assumed_rates_between_rounds")
                except (AssertionError, ValueError, NotImplementedError, ZeroDivisionError):
                    # planning may refuse (e.g. a non-positive margin); whether it should is C16's subject, not C10's
                    rec.count("planning_call_between_rounds_refused")
    return hist, sim


def run_case(es, rec):
    rec.current_case = es
    ok, sim0 = rec.guard("c10.setup", lambda: E.Sim(copy.deepcopy(es)).setup())
    if not ok:
        rec.case(es, nontrivial=False)
        return
    sim0.assign_sample_nums()
    rng = random.Random(es.get("_rseed", 0))
    if es.get("_fine") and not es.get("_rounds"):
        n0 = rng.randint(4, 12)
        sizes, cur = [], n0
        for _ in range(es["_fine"]):
            sizes.append({cid: min(cur, len(sim0.cvr_list)) for cid in sim0.contests})
            cur += rng.randint(1, 3)
        es["_rounds"] = sizes
        rec.count("fine_grained_histories")
    if "_with_replacement" not in es:
        es["_with_replacement"] = rng.random() < 0.15
    if es["_with_replacement"]:
        rec.count("histories_whose_tests_are_configured_for_sampling_with_replacement")
    if "_plan_between" not in es:
        es["_plan_between"] = ({"rate_1": rng.choice((0, 0.001, 0.05)), "rate_2": rng.choice((0, 0.01, 0.05, 0.2))}
                               if rng.random() < 0.25 else None)
    rounds = es.get("_rounds") or gen_rounds(rng, sim0)
    es["_rounds"] = rounds
    nums = [c.sample_num for c in sim0.cvr_list]
    rec.count("histories")
    if es.get("_tie_point"):
        rec.count("histories_through_the_point_where_the_clean_total_equals_N_t")
    rec.count("style_on" if sim0.use_style else "style_off")
    if any(v == 0 for v in rounds[0].values()) and any(v > 0 for v in rounds[-1].values() if True) and \
            any(rounds[0][c_] == 0 and rounds[-1][c_] > 0 for c_ in rounds[0]):
        rec.count("histories_in_which_a_contest_starts_in_a_later_round")
    results = {}
    for variant in ("redraw", "continue", "mixed"):
        hist, sim = run_variant(es, rounds, variant, rec)
        if hist is None:
            rec.case(es, nontrivial=False)
            return
        results[variant] = hist
        added_before = False
        for r in range(len(hist) - 1):
            a, b = hist[r], hist[r + 1]
            if a["sizes"] == b["sizes"]:
                rec.count("round_without_change")
            if not set(a["sel"]) <= set(b["sel"]):
                rec.violation("c10.superset", f"{variant}:round_drops_previously_selected_cards",
                              {"round": r + 1, "dropped": sorted(set(a["sel"]) - set(b["sel"])), "sizes": [a["sizes"], b["sizes"]]})
                return
            new = set(b["sel"]) - set(a["sel"])
            if new and a["sel"] and min(nums[i] for i in new) < max(nums[i] for i in a["sel"]):
                added_before = True
                rec.count("round_adds_card_before_already_selected")
            for key, d0 in a["data"].items():
                d1 = b["data"][key]
                rec.count("append_checked")
                if d1[:len(d0)] != d0:
                    j = next((i for i in range(min(len(d0), len(d1))) if d0[i] != d1[i]), min(len(d0), len(d1)))
                    rec.violation("c10.append", f"{variant}:data_sequence_not_extended_by_appending",
                                  {"round": r + 1, "contest": key[0], "assertion": key[1], "first_difference_at": j,
                                   "previous": d0, "next": d1, "sizes": [a["sizes"], b["sizes"]]})
                    return
                p0, pr0 = a["pv"][key]
                p1, pr1 = b["pv"][key]
                rec.count("monotone_checked")
                if p1 < p0:
                    rec.count("p_decreased")
                if es.get("_fixed_order_tests"):
                    rec.count("risk_monotonicity_not_asserted:random_order_false")
                    if pr0 and p1 > sim.contests[key[0]].risk_limit:
                        rec.count("confirmed_earlier_and_risk_now_above_limit")
                elif not (p1 <= p0 + 1e-12 * abs(p0) or (math.isnan(p0) and math.isnan(p1))):
                    rec.violation("c10.monotone", f"{variant}:measured_risk_increased", {"round": r + 1, "contest": key[0],
                                                                                         "assertion": key[1], "p_before": p0, "p_after": p1})
                    return
                if pr0:
                    rec.count("proved_carried_over")
                    if not pr1:
                        rec.violation("c10.monotone", f"{variant}:confirmed_assertion_became_unconfirmed", {"round": r + 1, "assertion": key[1]})
                        return
        for h in hist:
            for cid, n in h["sizes"].items():
                total = sum(1 for c in sim.cvr_list if c.has_contest(cid)) if sim.use_style else len(sim.cvr_list)
                if n == total:
                    rec.count("contest_full_hand_count")
        if variant == "redraw":
            styles = set(frozenset(c.votes) for c in sim.cvr_list if c.votes)
            nontrivial = sim.use_style and len(sim.contests) >= 2 and len(styles) >= 2 and added_before
    # continue vs redraw (and the history that alternates between the two)
    for r, (a, b) in enumerate(list(zip(results["redraw"], results["continue"])) + list(zip(results["redraw"], results["mixed"]))):
        r = r % len(results["redraw"])
        rec.count("continue_equals_redraw_checked")
        if set(a["sel"]) != set(b["sel"]):
            prev = results["continue"][r - 1]["sel"] if r else []
            order = sorted(range(len(nums)), key=lambda i: nums[i])
            prefix = prev == order[:len(prev)]
            rec.violation("c10.continue", "continued_sample_differs_from_redrawn:" + ("prev_is_prefix" if prefix else "prev_not_prefix"),
                          {"round": r, "redraw": a["sel"], "continue": b["sel"], "previous": prev, "sizes": a["sizes"]})
            return
        if a["sel"] != b["sel"]:
            rec.violation("c10.continue", "continued_sample_not_in_sample_number_order", {"round": r, "redraw": a["sel"], "continue": b["sel"]})
            return
        if sim0.use_style:
            for cid, n in a["sizes"].items():
                if n >= 1 and a["thr"][cid] != b["thr"][cid]:
                    rec.violation("c10.continue", "continued_threshold_differs_from_redrawn",
                                  {"round": r, "contest": cid, "redraw": a["thr"][cid], "continue": b["thr"][cid], "n_c": n})
                    return
    rec.case(es, nontrivial=bool(nontrivial), sample={"use_style": es["use_style"], "n_cards": len(es["cards"]), "rounds": rounds,
                                                     "styles": [sorted(c["votes"]) for c in es["cards"][:6]]})
