"""C07 — consistent sampling gives every contest the first cards of its own random order.

  c07.sampler   contract on the real CVR.consistent_sampling (fresh draws): the returned indices equal the reference
                sampler's (per contest: sort the cards listing it by sample number, take n_c; union; sort), without
                repetition, in sample-number order; each contest's threshold is the sample number of its n_c-th card;
                cvr.sampled is set exactly on the returned cards.
  c07.data      follow-up in the same history: sample -> prep_comparison_sample -> mvrs_to_data (style) hands each
                assertion of contest c exactly c's n_c reference cards in reference order.
  c07.determ    assign_sample_nums with SHA256(seed) depends on (seed, position) only.
  c07.votes     metamorphic: rewriting every vote, id, pool flag and phantom bit (styles and sample numbers kept) leaves
                selection and thresholds unchanged.
"""
import copy
import math
import random

import numpy as np

from checks.c06 import gen_sizes
from vlib import contracts
from vlib import election as E

RULE = ("simulated style-based elections (all / disjoint / nested / random styles, cards listing no contest, phantoms) x "
        "sample-number assignment (SHA256, list order, reverse, shuffled, one contest's cards first) x size vectors (ones, "
        "all cards, one contest exhausted, random); non-trivial = at least two contests with different styles and some card "
        "skipped; distinct = hash of (spec, sizes)")
REQUIRED = ["contract:CVR.consistent_sampling", "draws_checked", "thresholds_checked", "data_prefix_checked",
            "determinism_checked", "vote_independence_checked", "draws_with_skipped_cards", "sizes:ones", "sizes:all",
            "sizes:one_exhausted", "sizes:random", "sizes:some_zero", "draws_with_a_zero_size_contest_among_positive_ones", "continued_draws_checked",
            "continued_draw_with_some_sizes_lowered_and_some_raised", "data_prefix_checked_with_cvrs_as_mvrs:ONEAUDIT",
            "data_prefix_checked_with_cvrs_as_mvrs:CARD_COMPARISON", "vote_independence_checked:cards_sharing_identifiers", "draws_with_phantoms_selected", "cards_listing_no_contest_present", "polling_order_checked", "mismatched_sample_refused", "second_draw_same_contest_objects", "draw_after_sample_numbers_reassigned",
            "two_styles_whose_joined_identifiers_read_the_same",
            "draws_with_a_contest_object_whose_own_style_flag_is_off"]
ASSUMPTIONS = ["distinct sample numbers; n_c <= number of cards listing c; dict keys equal contest ids; thresholds for "
               "n_c = 0 are unconstrained"]
N_CASES = {"quick": 19200, "thorough": 200000}


def reference_sample(styles, nums, sizes):
    """styles: list of sets of contest ids per card; nums: sample numbers; sizes: {cid: n_c}."""
    chosen = set()
    thresholds = {}
    per = {}
    for cid, n in sizes.items():
        cards = sorted((i for i in range(len(styles)) if cid in styles[i]), key=lambda i: nums[i])
        per[cid] = cards[:n]
        chosen.update(cards[:n])
        if n >= 1:
            thresholds[cid] = nums[cards[n - 1]]
    return sorted(chosen, key=lambda i: nums[i]), thresholds, per


def pre_sampling(a, k):
    cvr_list = k.get("cvr_list", a[1] if len(a) > 1 else None)
    contests = k.get("contests", a[2] if len(a) > 2 else None)
    prev = k.get("sampled_cvr_indices", a[3] if len(a) > 3 else None)
    return {"styles": [set(c.votes.keys()) for c in cvr_list], "nums": [c.sample_num for c in cvr_list],
            "sizes": {con.id: con.sample_size for con in contests.values()}, "fresh": prev is None,
            "prev": None if prev is None else [int(i) for i in prev],
            "was_sampled": [bool(c.sampled) for c in cvr_list]}


def post_sampling(rec, result, a, k, old):
    cvr_list = k.get("cvr_list", a[1] if len(a) > 1 else None)
    contests = k.get("contests", a[2] if len(a) > 2 else None)
    case = rec.current_case
    want, thr, per = reference_sample(old["styles"], old["nums"], old["sizes"])
    if not old["fresh"]:
        # a continued draw keeps the cards selected earlier (whatever the sizes are now): the reported list is the union
        # of those and every contest's first n_c cards, still in sample-number order, thresholds as in a fresh draw
        want = sorted(set(want) | set(old["prev"]), key=lambda i: old["nums"][i])
        rec.count("continued_draws_checked")
    got = [int(i) for i in result]
    rec.count("draws_checked")
    if len(set(got)) != len(got):
        rec.violation("c07.sampler", "card_selected_twice", {"got": got}, case)
        return
    if got != want:
        if sorted(got) == sorted(want):
            mech = "not_in_sample_number_order"
        elif set(got) - set(want):
            extra = sorted(set(got) - set(want))
            mech = "selects_card_listing_no_unfinished_contest" if all(not (old["styles"][i] & set(old["sizes"])) for i in extra) \
                else "selects_cards_beyond_a_contests_first_n"
        else:
            mech = "misses_cards_of_a_contests_first_n"
        rec.violation("c07.sampler", mech, {"got": got, "want": want, "sizes": old["sizes"]}, case)
        return
    for con in contests.values():
        if old["sizes"][con.id] >= 1:
            rec.count("thresholds_checked")
            if con.sample_threshold != thr[con.id]:
                rec.violation("c07.sampler", "threshold_is_not_the_sample_number_of_the_nth_card",
                              {"contest": con.id, "got": con.sample_threshold, "want": thr[con.id], "n_c": old["sizes"][con.id]}, case)
                return
    flags = [bool(c.sampled) for c in cvr_list]
    wantf = [w or (i in set(want)) for i, w in enumerate(old["was_sampled"])]
    if flags != wantf:
        rec.violation("c07.sampler", "sampled_flag_disagrees_with_return", {"flagged": [i for i, f in enumerate(flags) if f], "want": want}, case)
        return
    if want:
        top = max(old["nums"][j] for j in want)
        ws = set(want)
        if any(old["nums"][i] < top and i not in ws for i in range(len(old["nums"]))):
            rec.count("draws_with_skipped_cards")


def install(rec):
    from shangrla.core.Audit import CVR
    contracts.wrap(CVR, "consistent_sampling", rec, post=post_sampling, pre=pre_sampling)


def plan(tier, seed):
    shards = 16
    shards_ = [{"n": N_CASES[tier] // shards, "shard": i} for i in range(shards)]
    # plus the repository's own test-suite run with this check's contracts armed (DESIGN 6.4)
    return shards_ + [{"kind": "suite", "shard": 99}]


def run_shard(spec, rec):
    if spec.get("kind") == "suite":
        from vlib import suite
        suite.run_suite("checks.c07", rec)
        return
    rng = random.Random(f"c07-{spec['seed']}-{spec['shard']}")
    modes = ("ones", "all", "one_exhausted", "random", "random", "some_zero")
    for i in range(spec["n"]):
        es = E.gen_spec(rng, audit_types=("CARD_COMPARISON", "ONEAUDIT"), style=True,
                        n_contests=rng.choice((1, 2, 2, 3, 4, 5)), n_cards=rng.choice((5, 8, 12, 20, 40, 80)))
        es["_sizes_seed"] = rng.randrange(10 ** 9)
        es["_sizes_mode"] = modes[i % len(modes)]
        if len(es["contests"]) >= 3 and rng.random() < 0.25:
            # contest identifiers are free text: "Governor", "Lt Governor" and a joint contest "Governor,Lt Governor" - the
            # card style {Governor, Lt Governor} and the style {"Governor,Lt Governor"} are different styles
            k = list(es["contests"])
            E.rename_contests(es, {k[0]: "Governor", k[1]: "Lt Governor", k[2]: "Governor,Lt Governor"})
            es["_comma_ids"] = True
        run_case(es, rec)


def run_case(es, rec):
    from cryptorandom.cryptorandom import SHA256
    rec.current_case = es
    ok, sim = rec.guard("c07.setup", lambda: E.Sim(es).setup())
    if not ok:
        rec.case(es, nontrivial=False, sample=brief(es))
        return
    CVR = sim.L["CVR"]
    rng = random.Random(es.get("_sizes_seed", 0))
    sim.assign_sample_nums()
    nums = [c.sample_num for c in sim.cvr_list]
    if len(set(nums)) != len(nums):
        rec.case(es, nontrivial=False)
        return
    sizes = gen_sizes(rng, sim, es.get("_sizes_mode"))
    rec.count(f"sizes:{es.get('_sizes_mode')}")
    if es.get("_comma_ids"):
        rec.count("contest_identifiers_containing_commas")
        st = {frozenset(c.votes) for c in sim.cvr_list}
        if frozenset(("Governor", "Lt Governor")) in st and frozenset(("Governor,Lt Governor",)) in st:
            rec.count("two_styles_whose_joined_identifiers_read_the_same")
    if any(v == 0 for v in sizes.values()) and any(v > 0 for v in sizes.values()):
        rec.count("draws_with_a_zero_size_contest_among_positive_ones")
    sim.set_sizes(sizes)
    flag_off = set()
    if len(sim.contests) >= 2 and es.get("_sizes_seed", 0) % 10 == 3:
        # one Contest object's own use_style attribute says False (built from a dict that said so, or by another tool) while
        # the draw is the style-based one: which cards count towards a contest is decided by what the cards list
        cid0 = sorted(sim.contests)[0]
        sim.contests[cid0].use_style = False
        flag_off.add(cid0)
        rec.count("draws_with_a_contest_object_whose_own_style_flag_is_off")
    styles = [set(c.votes.keys()) for c in sim.cvr_list]
    if any(not s for s in styles):
        rec.count("cards_listing_no_contest_present")
    ok, idx = rec.guard("c07.call:consistent_sampling", sim.draw)
    if not ok:
        rec.case(es, nontrivial=False, sample=brief(es))
        return
    idx = [int(i) for i in idx]
    want, thr, per = reference_sample(styles, nums, sizes)
    distinct_styles = len(set(frozenset(s) for s in styles if s))
    rec.case(es, nontrivial=(len(sizes) >= 2 and distinct_styles >= 2), sample=brief(es) | {"sizes": sizes})
    if any(sim.cvr_list[i].phantom for i in idx):
        rec.count("draws_with_phantoms_selected")
    thresholds = {cid: con.sample_threshold for cid, con in sim.contests.items()}
    sampled_after_first = [bool(c.sampled) for c in sim.cvr_list]

    # ---- follow-up: the data of contest c's assertions are exactly c's n_c reference cards, in reference order -----
    ok, ms = rec.guard("c07.call:prep_comparison_sample", sim.samples, list(idx))
    if not ok:
        return
    m, c = ms
    pos_of = {id(cv): k for k, cv in enumerate(c)}
    with np.errstate(all="ignore"):
        for cid, con in sim.contests.items():
            if sizes[cid] < 1 or cid in flag_off:   # (the data route selects by the Contest object's flag: C06's clause)
                continue
            ref_cards = per[cid]
            for name, asn in con.assertions.items():
                ok, du = rec.guard("c07.call:mvrs_to_data", asn.mvrs_to_data, m, c)
                if not ok:
                    return
                d = np.asarray(du[0], dtype=float)
                exp = []
                for i in ref_cards:
                    k = pos_of.get(id(sim.cvr_list[i]))
                    if k is None:
                        exp = None
                        break
                    exp.append(asn.overstatement_assorter(m[k], c[k], use_style=True))
                rec.count("data_prefix_checked")
                if exp is None or len(d) != len(exp) or any(not math.isclose(x, y, rel_tol=1e-12, abs_tol=1e-15) for x, y in zip(d, exp)):
                    rec.violation("c07.data", "assertion_data_are_not_the_contests_first_n_cards_in_order",
                                  {"contest": cid, "assertion": name, "n_c": sizes[cid], "len_data": int(len(d)),
                                   "data": d, "expected": exp, "threshold": con.sample_threshold})
                    return
                # the same question asked the way the sample-size code asks it: the CVR sample standing in for the manual
                # records too (one list object for both) - still exactly the contest's first n_c cards, error-free values
                ok, du2 = rec.guard("c07.call:mvrs_to_data:cvrs_as_mvrs", asn.mvrs_to_data, c, c)
                if not ok:
                    return
                rec.count(f"data_prefix_checked_with_cvrs_as_mvrs:{es['contests'][cid]['audit_type']}")
                if len(du2[0]) != len(ref_cards):
                    rec.violation("c07.data", "assertion_data_are_not_the_contests_first_n_cards_in_order",
                                  {"contest": cid, "assertion": name, "n_c": sizes[cid], "len_data": int(len(du2[0])),
                                   "manual_records": "the CVR sample itself", "threshold": con.sample_threshold})
                    return
                break  # one assertion per contest suffices for the order check

    # ---- a later fresh draw on the SAME Contest objects (sizes re-estimated, often downwards): the contract on
    #      consistent_sampling checks selection and thresholds again; nothing may be left over from the first draw -----
    sizes2 = {cid: (max(1, n // 2) if n >= 1 and rng.random() < 0.7 else n) for cid, n in sizes.items()}
    if sizes2 != sizes:
        sim.set_sizes(sizes2)
        ok, _idx2 = rec.guard("c07.call:consistent_sampling", sim.draw)
        if not ok:
            return
        rec.count("second_draw_same_contest_objects")
        sim.set_sizes(sizes)
        ok, _idx3 = rec.guard("c07.call:consistent_sampling", sim.draw)
        if not ok:
            return

    # ---- a continued draw after sizes were re-estimated: some contests ask for fewer cards (confirmed: 0) while others
    #      escalate; the earlier cards stay, and the list is still reported in sample-number order ------------------------
    sizes3 = {}
    for cid, n in sizes.items():
        avail = sum(1 for c in sim.cvr_list if c.has_contest(cid))
        r = rng.random()
        sizes3[cid] = 0 if r < 0.3 else max(0, n // 2) if r < 0.5 else min(avail, n + rng.randint(0, 4))
    if any(v > 0 for v in sizes3.values()):
        sim.set_sizes(sizes3)
        ok, _ = rec.guard("c07.call:consistent_sampling:continued", sim.draw, list(idx))
        if not ok:
            return
        if any(sizes3[c] < sizes[c] for c in sizes) and any(sizes3[c] > sizes[c] for c in sizes):
            rec.count("continued_draw_with_some_sizes_lowered_and_some_raised")
        sim.set_sizes(sizes)
        for c in sim.cvr_list:
            c.sampled = False
        ok, _ = rec.guard("c07.call:consistent_sampling", sim.draw)
        if not ok:
            return

    # ---- the sample numbers of the SAME list are re-assigned (a dry run with another seed, then the real one): the next
    #      fresh draw must follow the new numbers (the contract compares with the reference again) ----------------------
    old_nums = [c.sample_num for c in sim.cvr_list]
    perm = old_nums[:]
    rng.shuffle(perm)
    if perm != old_nums:
        for c, v in zip(sim.cvr_list, perm):
            c.sample_num = v
        ok, _ = rec.guard("c07.call:consistent_sampling", sim.draw)
        if not ok:
            return
        rec.count("draw_after_sample_numbers_reassigned")
        for c, v in zip(sim.cvr_list, old_nums):
            c.sample_num = v
        ok, _ = rec.guard("c07.call:consistent_sampling", sim.draw)
        if not ok:
            return

    # ---- ordering helpers: both prep_* functions put the sample back into selection order ----------------------------
    order = {sim.cvr_list[i].id: {"selection_order": k, "serial": i + 1} for k, i in enumerate(idx)}
    mv = [sim.mvr_for(i) for i in idx]
    want_ids = [x.id for x in mv]
    shuffled = mv[:]
    rng.shuffle(shuffled)
    ok, _ = rec.guard("c07.call:prep_polling_sample", CVR.prep_polling_sample, shuffled, order)
    if not ok:
        return
    rec.count("polling_order_checked")
    if [x.id for x in shuffled] != want_ids:
        rec.violation("c07.data", "prep_polling_sample_does_not_restore_selection_order", {"got": [x.id for x in shuffled][:8], "want": want_ids[:8]})
        return
    if len(idx) >= 2:
        # a manual record for the wrong card must be refused, not silently paired
        mv2 = [sim.mvr_for(i) for i in idx]
        mv2[0] = CVR(id="not-a-sampled-card", votes={})
        order2 = dict(order)
        order2["not-a-sampled-card"] = {"selection_order": 0, "serial": 0}
        try:
            CVR.prep_comparison_sample(mv2, [sim.cvr_list[i] for i in idx], order2)
            rec.violation("c07.data", "prep_comparison_sample_accepts_mismatched_identifiers", {"ids": [x.id for x in mv2][:4]})
            return
        except AssertionError:
            rec.count("mismatched_sample_refused")

    # ---- determinism of sample numbers --------------------------------------------------------------------------
    if es["sample_nums"]["kind"] == "sha256":
        seed = es["sample_nums"]["seed"]
        # different contents, and phantom records in front of / between real ones: numbers depend on position only
        other = [CVR(id=f"zz{i}", votes={"q": {"a": i}}, phantom=(i % 3 == 0), pool=(i % 2 == 0)) for i in range(len(sim.cvr_list))]
        CVR.assign_sample_nums(other, SHA256(seed))
        again = [CVR(id=f"yy{i}", votes={}) for i in range(len(sim.cvr_list))]
        CVR.assign_sample_nums(again, SHA256(seed + 1))
        rec.count("determinism_checked")
        if [o.sample_num for o in other] != nums:
            rec.violation("c07.determ", "sample_numbers_depend_on_record_contents", {"a": nums[:4], "b": [o.sample_num for o in other][:4]})
            return
        if [o.sample_num for o in again] == nums and len(nums) > 0:
            rec.violation("c07.determ", "sample_numbers_ignore_the_seed", {"a": nums[:4]})
            return

    # ---- metamorphic: selection depends on records only through the contests each lists -----------------------------
    twin = []
    for j, cv in enumerate(sim.cvr_list):
        votes = {cid: {f"w{rng.randint(0, 3)}": rng.choice((1, 0, True, "x"))} for cid in cv.votes}
        # identifiers are contents too: several cards may even share one (per-batch card numbers, ids not yet assigned)
        t = CVR(id=(f"t{(len(sim.cvr_list) - j) % 3}" if len(sim.cvr_list) % 2 else f"t{len(sim.cvr_list) - j}"),
                votes=votes, phantom=not cv.phantom, pool=rng.random() < 0.5,
                tally_pool=rng.choice(("q1", "q2")))
        t.sample_num = cv.sample_num
        # every other attribute a record may carry from earlier steps (the sampling probability left by a sample-size
        # estimate, a stale sampled flag, a position in its batch): none of them is "which contests it lists"
        t.p = rng.choice((0, 0.0, 1, 0.25, None))
        t.card_in_batch = rng.choice((None, 0, j))
        twin.append(t)
    con2 = copy.copy(sim.contests)
    con2 = {cid: copy.copy(con) for cid, con in sim.contests.items()}
    for con in con2.values():
        con.sample_threshold = None
    ok, idx2 = rec.guard("c07.call:consistent_sampling", CVR.consistent_sampling, cvr_list=twin, contests=con2)
    if not ok:
        return
    rec.count("vote_independence_checked")
    if len(sim.cvr_list) % 2 and len(sim.cvr_list) > 3:
        rec.count("vote_independence_checked:cards_sharing_identifiers")
    if [int(i) for i in idx2] != idx or {cid: con.sample_threshold for cid, con in con2.items() if sizes[cid] >= 1} != \
            {cid: t for cid, t in thresholds.items() if sizes[cid] >= 1}:
        rec.violation("c07.votes", "selection_depends_on_vote_contents_or_flags", {"original": idx, "twin": [int(i) for i in idx2]})


def brief(es):
    return {"n_cards": len(es["cards"]), "styles": [sorted(c["votes"]) for c in es["cards"][:8]],
            "sample_nums": es["sample_nums"]["kind"], "sn_mode": es.get("sn_mode")}
