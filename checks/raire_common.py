"""Shared workload for C04, C14 (re-application), C15: run the real compute_raire_assertions on a generated profile
and return both the library's answer and the reference model's view of the same profile."""
import io

from vlib import irv


N_WEIGHTS = {"quick": ((2, 3, 4, 5, 6, 7), (2, 6, 10, 16, 7, 1)), "thorough": ((2, 3, 4, 5, 6, 7, 8), (4, 8, 16, 32, 20, 4, 1))}


def pick_n(rng, tier, n_min=2):
    ns, ws = N_WEIGHTS[tier]
    pairs = [(n, w) for n, w in zip(ns, ws) if n >= n_min]
    return rng.choices([p[0] for p in pairs], [p[1] for p in pairs])[0]


def gen_case(rng, n_max=5, n_min=2, n=None):
    if n is not None:
        n_min = n_max = n
    cands, prof = irv.gen_profile(rng, n_max=n_max, n_min=n_min)
    cnt = irv.counter_of(prof)
    true_order = irv.irv_order(cands, cnt, rng)
    r = rng.random()
    if r < 0.6:
        winner = true_order[-1]
    elif r < 0.8:
        winner = true_order[-2]
    else:
        winner = rng.choice(cands)
    hint = rng.choice(("none", "none", "true", "wrong"))
    if hint == "true":
        order = list(true_order) if true_order[-1] == winner else [c for c in true_order if c != winner] + [winner]
    elif hint == "wrong":
        order = cands[:]
        rng.shuffle(order)
    else:
        order = []
    return {"cands": cands, "ballots": [list(b) if b is not None else None for b in prof], "winner": winner,
            "asn": rng.choice(("cp", "bp", "cp", "bp", "cp", "bp", "inverse_vote_margin", "share_not_in_margin", "offset_inverse_margin")), "order": order, "informal": rng.choice((0, 0, 3)), "warm": rng.random() < 0.25,
            "dict_order": rng.choice(("preference", "candidate", "reversed")), "cname": rng.choice(("con1", "con1", "con1", 1)),
            "rank_gaps": rng.random() < 0.3,
            "stored_winner": rng.choice(cands) if rng.random() < 0.25 else None}


def run_raire(case, rec, monitor):
    """-> dict(result=list of assertions, keys=[reference keys], cands, winner, counter, tot, asn_func) or None."""
    from shangrla.raire.raire import compute_raire_assertions
    from shangrla.raire.raire_utils import Contest, NEBAssertion, NENAssertion
    from shangrla.raire.sample_estimator import bp_estimate, cp_estimate
    cands, winner = case["cands"], case["winner"]
    prof = [tuple(b) if b is not None else None for b in case["ballots"]]
    if case.get("weights"):
        # a large electorate written compactly: each listed ranking stands for that many ballots
        prof = [b for b, w in zip(prof, case["weights"]) for _ in range(w)]
    # the contest identifier is an opaque key: a string in RAIRE files, an integer in the library's text format
    cname = case.get("cname", "con1")
    if not isinstance(cname, str):
        rec.count("contest_identifier_is_not_a_string")
    cvrs = {}
    for i, b in enumerate(prof):
        bid = f"b{i}"
        if b is None:
            cvrs[bid] = {"other": {"Z": 0}}
            continue
        # the ballot mapping may be stored in any order (the documentation's own example lists candidates in candidate
        # order): preference order, candidate order, reversed - the ranks are what counts
        ranks = {c: k for k, c in enumerate(b)}
        if case.get("rank_gaps"):
            # rank numbers with holes (a write-in or another contest's id dropped by the reader, a skipped rank): only
            # the order of the ranks means anything
            # (the first listed candidate keeps rank 0: "first preference" is rank 0 on the generator side and rank 1 on
            # the audit side by definition, so a hole BEFORE the first rank would change the ballot's meaning)
            step, acc = (2, 1, 3, 1), 0
            for k, c in enumerate(b):
                ranks[c] = acc
                acc += step[(i + k) % 4]
        mode = case.get("dict_order", "preference")
        keys = list(b) if mode == "preference" else [c for c in cands if c in ranks] if mode == "candidate" else list(reversed(b))
        cvrs[bid] = {cname: {c: ranks[c] for c in keys}}
    if case.get("rank_gaps"):
        rec.count("ballots_whose_rank_numbers_have_holes")
    if case.get("dict_order", "preference") != "preference":
        rec.count("ballot_mappings_not_stored_in_preference_order")
    tot = sum(1 for b in prof if b is not None) + case.get("informal", 0)
    # the two shipped difficulty functions, and two others that decrease as the margin grows (the property speaks of every
    # such function); the extra ones take values at and below 1, where the shipped ones never go
    asn_func = {"cp": cp_estimate, "bp": bp_estimate,
                "inverse_vote_margin": lambda w, l, o, t: 1.0 / (w - l),
                "share_not_in_margin": lambda w, l, o, t: 1.0 - (w - l) / t,
                # distinct difficulties that agree to five or six digits (what the shipped functions give for margins of
                # 100 000 votes and more), at a size where the brute-force optimum is cheap
                "offset_inverse_margin": lambda w, l, o, t: 1e5 + 1.0 / (w - l)}[case["asn"]]
    if case["asn"] not in ("cp", "bp"):
        rec.count("runs_with_a_difficulty_function_that_is_not_shipped")
    # the Contest object stores the winner named in the file it came from; the winner to be audited is the ARGUMENT
    # (simp_assertions.py passes the winner it has just computed): the two may differ
    stored = case.get("stored_winner") or winner
    if stored != winner:
        rec.count("contest_object_stores_another_winner_than_the_argument")
    contest = Contest(cname, list(cands), stored, tot, order=list(case.get("order") or []))
    sink = io.StringIO()
    if case.get("warm"):
        # the same Contest object was used before, for a different export of the same size (candidate names rotated in
        # every ranking): nothing of that run may survive into the next one
        rot = dict(zip(cands, list(cands[1:]) + list(cands[:1])))
        warm_cvrs = {bid: ({cname: {rot[c]: k for c, k in v[cname].items()}} if cname in v else v) for bid, v in cvrs.items()}
        try:
            compute_raire_assertions(contest, warm_cvrs, winner, asn_func, False, sink, 0)
        except Exception:
            pass
        rec.count("contest_object_reused_after_other_cvrs")
    agap = case.get("agap", 0)
    if agap:
        rec.count("runs_with_a_positive_allowed_gap")
    if case.get("time_limit"):
        # a generous per-run watchdog for the strata whose search can degenerate (many candidates): firing means "this run
        # was not observed" - it is counted, never judged
        import signal

        class _TooSlow(BaseException):
            pass

        def _fire(*_a):
            raise _TooSlow()
        old_h = signal.signal(signal.SIGALRM, _fire)
        signal.setitimer(signal.ITIMER_REAL, float(case["time_limit"]))
        try:
            ok, res = rec.guard(monitor, compute_raire_assertions, contest, cvrs, winner, asn_func, False, sink, agap)
        except _TooSlow:
            rec.count("raire_runs_abandoned_by_the_per_run_watchdog")
            return None
        finally:
            signal.setitimer(signal.ITIMER_REAL, 0)
            signal.signal(signal.SIGALRM, old_h)
    else:
        ok, res = rec.guard(monitor, compute_raire_assertions, contest, cvrs, winner, asn_func, False, sink, agap)
    if not ok:
        return None
    out = {"result": res, "cands": cands, "winner": winner, "counter": irv.counter_of(prof), "tot": tot,
           "asn_func": asn_func, "cvrs": cvrs, "cname": cname, "NEB": NEBAssertion, "NEN": NENAssertion}
    return out


def key_of(a, NEB, NEN):
    """Reference key of a returned assertion object, or None if it is not an assertion."""
    if isinstance(a, NEN):
        return ("NEN", a.winner, a.loser, frozenset(a.eliminated))
    if isinstance(a, NEB):
        return ("NEB", a.winner, a.loser)
    return None


def gen_large_case(rng):
    """A large electorate (3-4 candidates, 4-5 distinct rankings, each cast K + d times, K about 100 000, |d| <= 3): margins
    of about K votes that differ from one another by a few votes, so that distinct difficulties agree to five digits."""
    n = rng.choice((3, 3, 4))
    cands = [chr(65 + i) for i in range(n)]
    ranks = set()
    while len(ranks) < rng.randint(4, 5):
        k = rng.randint(1, n)
        ranks.add(tuple(rng.sample(cands, k)))
    ranks = sorted(ranks)
    K = rng.choice((100003, 100500, 120000))
    weights = [K + rng.randint(-3, 3) for _ in ranks]
    cnt = irv.counter_of([b for b, w in zip(ranks, weights) for _ in range(w)])
    winner = irv.irv_order(cands, cnt)[-1]
    return {"cands": cands, "ballots": [list(b) for b in ranks], "weights": weights, "winner": winner, "asn": rng.choice(("cp", "bp")),
            "order": [], "informal": 0, "warm": False, "dict_order": "preference", "cname": "con1", "rank_gaps": False,
            "stored_winner": None}


def gen_eleven(rng):
    """Eleven candidates; two ballots rank all of them, agreeing on eight and giving the other three the 0-based ranks
    (1, 0, 10) and (10, 1, 0) - two different rankings whose rank numbers, written side by side without a separator, read
    the same; the other ballots are short.  Rank numbers with two digits only occur with more than ten candidates."""
    cands = [chr(65 + i) for i in range(11)]
    rng.shuffle(cands)
    i0 = rng.randint(0, 8)
    a, b, c = sorted(cands)[i0:i0 + 3]      # (adjacent in candidate order: that is where the rank numbers stand side by side)
    rest = [x for x in sorted(cands) if x not in (a, b, c)]
    rng.shuffle(rest)
    X = [b, a] + rest + [c]
    Y = [c, b] + rest + [a]
    ballots = [X, Y]
    nc = rng.randint(2, 4)
    for z, n in ((b, nc + rng.randint(3, 5)), (c, nc), (a, rng.randint(0, 1))):
        ballots += [[z]] * n
    if rng.random() < 0.5:
        ballots.append([a, b])
    rng.shuffle(ballots)
    # (the reported winner is the true one, by a clear margin: with eleven candidates a contest that cannot be audited
    # makes the search walk a tree of 10! leaves)
    return {"cands": sorted(cands), "ballots": [list(x) for x in ballots], "winner": b, "asn": rng.choice(("cp", "bp")),
            "order": [], "informal": 0, "warm": False, "dict_order": rng.choice(("preference", "candidate")), "cname": "con1",
            "rank_gaps": False, "stored_winner": None, "time_limit": 10}
