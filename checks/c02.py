"""C02 — assorter means exceed 1/2 exactly when the reported winners really won.

Reference-model monitors (independent tally in fractions.Fraction):
  c02.iff      plurality/approval with k winners: (all winner-v-loser assorter means > 1/2) == (every reported winner has
               strictly more votes than every reported loser);  super-majority: (mean > 1/2) == (W > f V), a ballot
               with != 1 mark among the contest's candidates being invalid.
  c02.range    every assorter value lies in [0, upper_bound].
  c02.margin   find_margin_from_tally(tally) == 2 mean - 1 over the same cards, for the oracle's tally and for
               Contest.tally(enforce_rules False/True) where the tally and the assorter count the same ballots.
"""
import math
import random
from fractions import Fraction

import numpy as np

RULE = ("seeded random + stratified ballot profiles (ties, k winners, approval ballots, blanks, ballots lacking the "
        "contest, every truthy/falsy mark encoding, exact-threshold super-majority profiles, write-in-only ballots in 30 % "
        "of profiles); non-trivial = at least "
        "two candidates received votes or the profile sits on a tie / exact threshold; distinct = hash of the profile")
REQUIRED = ["iff_checked:plurality", "iff_checked:approval", "iff_checked:supermajority", "range_values_checked",
            "margin_checked:oracle_tally", "margin_checked:contest_tally_rules_off", "margin_checked:contest_tally_rules_on",
            "stratum:tie", "stratum:exact_threshold", "stratum:lacking_contest_style_off", "truth:winners_really_won",
            "truth:winners_did_not_win", "margin_tally_holds_write_in_votes",
            "style_mean_rechecked_after_scoring_cards_lacking_the_contest", "card_count_revised_after_assertions_were_made",
            "margin_checked:contest_level_call_with_confirmed_assertions", "assertions_built_by_make_all_assertions",
            "candidate_names_contained_in_one_another", "contest_carries_a_reported_tally_when_assertions_are_made",
            "tally_taken_together_with_a_contest_of_another_n_winners", "ballots_in_pooled_batches_with_batch_means_set",
            "margin_checked:sub_collection", "contest_identifier_assigned_after_assertions_were_made", "marks_held_in_a_dict_subclass", "vote_bearing_records_flagged_phantom", "contests_of_more_than_65536_ballots",
            "margin_from_tally_asked_while_the_test_holds_the_comparison_bound",
            "supermajority_built_with_a_share_argument_that_differs_from_the_contests",
            "margin_checked:assertion_method_with_the_callers_style_flag"]
ASSUMPTIONS = ["shares f in {1/2,1/4,1/8} (f and 1/(2f) both dyadic) are exact in binary; inexact shares (2/3, 0.6) are only evaluated at a "
               "distance from the threshold that rounding cannot bridge", "a mark for a name that is not on the contest's "
               "candidate list (write-in) appears only on ballots with no mark for a listed candidate, so that no "
               "reading of 'valid vote' is imposed on the code"]
N_CASES = {"quick": 96000, "thorough": 768000}
TRUTHY = (True, 1, "x", 5, "marked", 2.5, float("nan"), -1, (0,), [0], "0", "False", " ")   # Python truthiness: NaN, negative numbers and non-empty containers are marks
FALSY = (False, 0, "", None, 0.0, (), [])
CANDS = ["A", "B", "C", "D", "E", "F"]
WRITE_INS = ["W/I", "Dan"]
NESTED_NAMES = ["Anna", "Ann", "An", "Bob", "Bo", "1", "12", "21"]


def plan(tier, seed):
    shards = 16
    return [{"n": N_CASES[tier] // shards, "shard": i} for i in range(shards)]


def gen_profile(rng, kind, stratum):
    ncand = rng.randint(2, 6)
    cands = CANDS[:ncand]
    if rng.random() < 0.3:
        # names that contain one another ("Ann" in "Anna", "1" in "12"): identifiers are compared, never searched
        cands = rng.sample(NESTED_NAMES, ncand)
    nb = rng.choice((3, 5, 8, 12, 20, 40, 100, 200)) if rng.random() < 0.8 else rng.randint(1, 6)
    if kind == "supermajority":
        k = 1
        f = rng.choice((0.5, 0.5, 0.25, 0.125, 0.75, 2 / 3, 0.6))
    else:
        k = rng.randint(1, ncand - 1)
        f = None
    ballots = []
    p_lack = rng.choice((0, 0, 0.1, 0.5))
    max_marks = 1 if kind == "plurality" and rng.random() < 0.6 else ncand
    weights = [rng.random() ** 2 for _ in cands]
    write_ins = rng.random() < 0.3
    for _ in range(nb):
        if rng.random() < p_lack:
            ballots.append(None)
            continue
        r = rng.random()
        nm = 0 if r < 0.1 else 1 if r < 0.75 or max_marks == 1 else rng.randint(2, max_marks)
        # weighted sample without replacement (Efraimidis-Spirakis keys)
        marked = set(sorted(cands, key=lambda c: -(rng.random() ** (1.0 / max(weights[cands.index(c)], 1e-9))))[:nm])
        b = {}
        for c in cands:
            if c in marked:
                b[c] = rng.choice(TRUTHY)
            elif rng.random() < 0.4:
                b[c] = rng.choice(FALSY)  # listed but not marked; otherwise absent from the ballot
        if write_ins:
            # a name that is not on the contest's candidate list: marked only on ballots with no candidate mark (a
            # write-in-only ballot carries no valid vote under every reading), listed-but-unmarked anywhere
            if nm == 0 and rng.random() < 0.7:
                b[rng.choice(WRITE_INS)] = rng.choice(TRUTHY)
            elif rng.random() < 0.2:
                b[rng.choice(WRITE_INS)] = rng.choice(FALSY)
        ballots.append(b)
    winners = rng.sample(cands, k)
    prof = {"kind": kind, "cands": cands, "winners": winners, "share": f, "ballots": ballots}
    if rng.random() < 0.3:
        prof["cards_first"] = nb + rng.choice((1, 3, nb))
    prof["via_make_all"] = rng.random() < 0.4
    prof["flagged"] = rng.random() < 0.1
    prof["test_holds_comparison_bound"] = rng.random() < 0.2
    prof["stale_share_arg"] = rng.random() < 0.15
    if rng.random() < 0.12:
        # the marks of a ballot held in a mapping that is a dict but not exactly a dict (json with object_pairs_hook, counters)
        prof["marks_container"] = rng.choice(("OrderedDict", "defaultdict", "Counter"))
    if rng.random() < 0.1:
        prof["id_first"] = "con (draft)"   # the contest gets its final identifier after its assertions were made
    prof["pooled"] = rng.random() < 0.25
    if rng.random() < 0.3:
        order = sorted(cands, key=lambda c: (c not in winners, rng.random()))   # reported: winners ahead, whatever was cast
        prof["reported_tally"] = {c: 10 * (len(cands) - j) + rng.randint(0, 9) for j, c in enumerate(order)}
    if stratum == "tie" and kind != "supermajority":
        force_tie(rng, prof)
    if stratum == "true_winners" and kind != "supermajority":
        tal = oracle_tally(prof)
        order = sorted(cands, key=lambda c: (-tal[c], rng.random()))
        prof["winners"] = order[:k]
    if stratum == "exact_threshold" and kind == "supermajority":
        force_threshold(rng, prof, rng.choice((0, 0, 1, -1)))
    if stratum == "all_invalid" and kind == "supermajority" and ncand >= 2:
        prof["ballots"] = [{cands[0]: 1, cands[1]: "x"} for _ in range(nb)]
    if stratum == "all_blank":
        prof["ballots"] = [{} for _ in range(nb)]
    return prof


def truthy(v):
    return bool(v)


def oracle_tally(prof, with_write_ins=False):
    """votes per listed candidate; with_write_ins also counts marks for names not on the candidate list (as a raw
    tabulation of the cards would)"""
    tal = {c: 0 for c in prof["cands"]}
    for b in prof["ballots"]:
        if b is None:
            continue
        for c, v in b.items():
            if truthy(v) and (c in tal or with_write_ins):
                tal[c] = tal.get(c, 0) + 1
    return tal


def force_tie(rng, prof):
    """Make one reported winner tie with one reported loser (strictly-more must then fail)."""
    losers = [c for c in prof["cands"] if c not in prof["winners"]]
    w, l = rng.choice(prof["winners"]), rng.choice(losers)
    tal = oracle_tally(prof)
    lo, hi = (w, l) if tal[w] < tal[l] else (l, w)
    for _ in range(tal[hi] - tal[lo]):
        prof["ballots"].append({lo: rng.choice(TRUTHY)})


def force_threshold(rng, prof, delta):
    """W = f V + delta exactly (dyadic f)."""
    f = prof["share"]
    if f not in (0.5, 0.25, 0.125):
        f = prof["share"] = rng.choice((0.5, 0.25, 0.125))
    fr = Fraction(f)
    w = prof["winners"][0]
    others = [c for c in prof["cands"] if c != w]
    unit = fr.denominator
    V = unit * rng.randint(1, 6)
    W = int(fr * V) + delta
    W = max(0, min(V, W))
    bal = [{w: rng.choice(TRUTHY)} for _ in range(W)] + [{rng.choice(others): rng.choice(TRUTHY)} for _ in range(V - W)]
    # plus invalid ballots of every sort
    for _ in range(rng.randint(0, 5)):
        bal.append(rng.choice(({}, {w: 1, others[0]: 1}, None, {w: 0})))
    rng.shuffle(bal)
    prof["ballots"] = bal


STRATA = ("random", "random", "tie", "true_winners", "true_winners", "exact_threshold", "all_invalid", "all_blank",
          "random")


def run_shard(spec, rec):
    rng = random.Random(f"c02-{spec['seed']}-{spec['shard']}")
    if spec["tier"] != "quick" or spec["shard"] % 4 == 0:
        # one large contest (a little over 2^16 ballots, as any county has): a near-tie among the first 65 536 ballots and a
        # last handful that decides it - the mean is over ALL ballots, each with weight one
        d, r = rng.randint(3, 40), rng.randint(5, 60)
        kind = rng.choice(("plurality", "supermajority"))
        prof = {"kind": kind, "cands": ["A", "B"], "winners": ["A"], "share": 0.5 if kind == "supermajority" else None,
                "ballots_rle": [[{"A": 1}, 32768 + d], [{"B": 1}, 32768 - d], [{"B": 1}, r]], "stratum": "large_contest",
                "use_style": rng.random() < 0.5, "omit_share_arg": False, "via_make_all": False, "pooled": False}
        rec.count("contests_of_more_than_65536_ballots")
        run_case(prof, rec)
    for i in range(spec["n"]):
        kind = ("plurality", "approval", "supermajority")[i % 3]
        st = STRATA[(i // 3) % len(STRATA)]
        prof = gen_profile(rng, kind, st)
        prof["stratum"] = st
        prof["use_style"] = rng.random() < 0.5
        prof["omit_share_arg"] = rng.random() < 0.5
        run_case(prof, rec)


def build(prof):
    from shangrla.core.Audit import Assertion, Contest, CVR, Audit
    from shangrla.core.NonnegMean import NonnegMean
    kind = prof["kind"]
    scf = {"plurality": Contest.SOCIAL_CHOICE_FUNCTION.PLURALITY, "approval": Contest.SOCIAL_CHOICE_FUNCTION.APPROVAL,
           "supermajority": Contest.SOCIAL_CHOICE_FUNCTION.SUPERMAJORITY}[kind]
    ncards = len(prof["ballots"])
    # the card count known when the assertions are made may be a preliminary one (revised later by check_cards /
    # make_phantoms / the canvass): margins from tallies are "over the same cards", i.e. the count the contest holds then
    con = Contest.from_dict({"id": prof.get("id_first") or "con", "name": "con", "risk_limit": 0.05, "cards": prof.get("cards_first") or ncards,
                             "choice_function": scf,
                             "n_winners": len(prof["winners"]), "share_to_win": prof["share"],
                             "candidates": list(prof["cands"]), "winner": list(prof["winners"]),
                             "audit_type": Audit.AUDIT_TYPE.POLLING, "test": NonnegMean.alpha_mart,
                             "estim": NonnegMean.shrink_trunc, "bet": None, "use_style": prof["use_style"]})
    if prof.get("reported_tally"):
        # the contest carries the REPORTED tally when its assertions are made (it may be wrong: that is what is audited)
        con.tally = dict(prof["reported_tally"])
    import collections
    mk = {"dict": dict, "OrderedDict": collections.OrderedDict, "defaultdict": lambda b: collections.defaultdict(int, b),
          "Counter": lambda b: collections.Counter(b)}[prof.get("marks_container", "dict")]
    cvrs = [CVR(id=f"c{i}", votes=({} if b is None else {"con": mk(dict(b))})) for i, b in enumerate(prof["ballots"])]
    if prof.get("flagged"):
        # some vote-bearing records carry the "phantom" flag (a record whose card could not be matched at first, loaded
        # with phantom=True): the flag matters to the overstatement convention, not to what the ballot says - the assorter
        # mean and the tally are both over the ballots as recorded
        for i, cv in enumerate(cvrs):
            if i % 3 == 1:
                cv.phantom = True
    losers = [c for c in prof["cands"] if c not in prof["winners"]]
    # the constructors are called twice with the SAME argument objects (a notebook cell re-run, or one race audited
    # twice): the assertions used are those of the second call, and the caller's lists must come back unchanged
    winners_arg = list(prof["winners"])
    before = (list(winners_arg), list(losers))
    if prof.get("via_make_all") and kind != "approval":   # (make_all_assertions declares approval not implemented)
        # the route an audit takes: the contest dict handed to make_all_assertions (test/estim taken from the contest)
        for _ in range(2):
            Assertion.make_all_assertions({"con": con})
        con._args_mutated = False
        asns = con.assertions
        con.cards = ncards
        con.id = "con"
        return con, cvrs, asns, Contest
    for _ in range(2):
        if kind == "supermajority":
            kw = {} if prof.get("omit_share_arg") else {"share_to_win": prof["share"]}   # the contest carries the share
            if prof.get("stale_share_arg") and kw:
                # a caller that still passes last year's threshold: the Contest object is what carries the required share
                # (the assorter is defined from it), so the bound must come from there too
                kw = {"share_to_win": min(0.95, prof["share"] + 0.2)}
            asns = Assertion.make_supermajority_assertion(contest=con, winner=prof["winners"][0], loser=losers,
                                                          test=NonnegMean.alpha_mart, estim=NonnegMean.shrink_trunc, **kw)
        else:
            asns = Assertion.make_plurality_assertions(contest=con, winner=winners_arg, loser=losers,
                                                       test=NonnegMean.alpha_mart, estim=NonnegMean.shrink_trunc)
    con._args_mutated = (before != (winners_arg, losers))
    con.cards = ncards
    con.id = "con"
    return con, cvrs, asns, Contest


def run_case(prof, rec):
    if "ballots_rle" in prof:
        prof = dict(prof)
        prof["ballots"] = [dict(b) for b, n in prof["ballots_rle"] for _ in range(n)]
        del prof["ballots_rle"]
    kind = prof["kind"]
    cands, winners = prof["cands"], prof["winners"]
    losers = [c for c in cands if c not in winners]
    ballots = prof["ballots"]
    use_style = prof["use_style"]
    tal = oracle_tally(prof)
    rec.case(prof, nontrivial=(sum(1 for c in cands if tal[c] > 0) >= 2 or prof.get("stratum") in ("tie", "exact_threshold")),
             sample={k: prof[k] for k in ("kind", "cands", "winners", "share", "stratum")} | {"ballots": ballots[:6], "n_ballots": len(ballots)})
    rec.count(f"stratum:{prof.get('stratum')}")
    if any(b is None for b in ballots) and not use_style:
        rec.count("stratum:lacking_contest_style_off")
    ok, built = rec.guard("c02.build", build, prof)
    if not ok:
        return
    con, cvrs, asns, Contest = built
    rec.count("constructor_called_twice_with_same_arguments")
    if prof.get("cards_first"):
        rec.count("card_count_revised_after_assertions_were_made")
    if prof.get("via_make_all") and kind != "approval":
        rec.count("assertions_built_by_make_all_assertions")
    if prof.get("reported_tally"):
        rec.count("contest_carries_a_reported_tally_when_assertions_are_made")
    if prof.get("id_first"):
        rec.count("contest_identifier_assigned_after_assertions_were_made")
    if prof.get("marks_container"):
        rec.count("marks_held_in_a_dict_subclass")
    if prof.get("flagged"):
        rec.count("vote_bearing_records_flagged_phantom")
    if prof.get("stale_share_arg") and kind == "supermajority" and not prof.get("omit_share_arg") and not prof.get("via_make_all"):
        rec.count("supermajority_built_with_a_share_argument_that_differs_from_the_contests")
    if any(a != b and a in b for a in cands for b in cands):
        rec.count("candidate_names_contained_in_one_another")
    if con._args_mutated:
        rec.count("observed:constructor_mutated_its_arguments")  # an observation, not a violation: the property is about the values
    if prof.get("pooled"):
        # some of the cards belong to pooled batches and the assorters know the batch means (ONEAudit): the assorter MEAN of
        # a collection of ballots is still the mean of their own values, over whatever collection it is asked about
        for i, cv in enumerate(cvrs):
            if i % 3 != 2:
                cv.pool, cv.tally_pool = True, ("p1", "p2")[i % 2]
        for a in asns.values():
            ok, _ = rec.guard(f"c02.call:set_tally_pool_means:{kind}", a.assorter.set_tally_pool_means, cvr_list=cvrs,
                              use_style=use_style)
            if not ok:
                return
        rec.count("ballots_in_pooled_batches_with_batch_means_set")
    with np.errstate(all="ignore"):
        means = {}
        for name, a in asns.items():
            ok, m = rec.guard(f"c02.call:mean:{kind}", a.assorter.mean, cvrs, use_style)
            if not ok:
                return
            means[name] = float(m)
            # range of every assorter value
            for cv in cvrs:
                ok, v = rec.guard(f"c02.call:assort:{kind}", a.assorter.assort, cv)
                if not ok:
                    return
                rec.count("range_values_checked")
                if not (0 <= v <= a.assorter.upper_bound * (1 + 1e-12)) or v != v:
                    rec.violation("c02.range", f"{kind}:assorter_value_out_of_range",
                                  {"value": v, "upper_bound": a.assorter.upper_bound, "ballot": cv.votes})
                    return
    # the assertion-level margin method (reached through the class: the instance attribute of the same name holds the last
    # stored margin): twice the mean minus one over the collection and under the style flag the CALLER names
    with np.errstate(all="ignore"):
        for name, a in asns.items():
            ok, mg = rec.guard(f"c02.call:Assertion.margin:{kind}", type(a).margin, a, cvrs, use_style)
            if not ok:
                return
            rec.count("margin_checked:assertion_method_with_the_callers_style_flag")
            want_ = 2 * means[name] - 1
            if not (math.isclose(float(mg), want_, rel_tol=1e-12, abs_tol=1e-15) or (mg != mg and want_ != want_)):
                rec.violation("c02.margin", f"{kind}:assertion_margin_method_is_not_twice_the_mean_minus_one",
                              {"assertion": name, "margin": float(mg), "2*mean-1": want_, "use_style": use_style,
                               "cards_lacking_the_contest": sum(1 for b in ballots if b is None)})
                return
    # ---- the iff ---------------------------------------------------------------------------------------
    n_listed = sum(1 for b in ballots if b is not None)
    if kind in ("plurality", "approval"):
        truth = all(tal[w] > tal[l] for w in winners for l in losers)
        lib = all(m > 0.5 for m in means.values())
        if len(means) != len(winners) * len(losers):
            rec.violation("c02.iff", f"{kind}:wrong_number_of_assertions", {"got": len(means)})
        if use_style and n_listed == 0:
            rec.count("empty_population_skipped")  # mean over no cards is undefined: nothing to compare
        else:
            rec.count(f"iff_checked:{kind}")
            rec.count("truth:winners_really_won" if truth else "truth:winners_did_not_win")
            if truth != lib:
                rec.violation("c02.iff", f"{kind}:means_disagree_with_tally",
                              {"winners_won": truth, "all_means_above_half": lib, "tally": tal, "winners": winners,
                               "means": means, "use_style": use_style})
            # each pairwise mean individually: mean > 1/2 iff tally[w] > tally[l]
            for w in winners:
                for l in losers:
                    m = means.get(w + " v " + l)
                    if m is None:
                        rec.violation("c02.iff", f"{kind}:missing_pair_assertion", {"pair": [w, l]})
                    elif (m > 0.5) != (tal[w] > tal[l]):
                        rec.violation("c02.iff", f"{kind}:pair_mean_disagrees_with_tally",
                                      {"pair": [w, l], "mean": m, "tally": tal})
    else:
        f = prof["share"]
        w = winners[0]
        valid = [b for b in ballots if b is not None and sum(1 for c in cands if c in b and truthy(b[c])) == 1]
        V = len(valid)
        W = sum(1 for b in valid if w in b and truthy(b[w]))
        # exact only if both f and the assorter value 1/(2f) are dyadic
        fr = Fraction(f) if f in (0.5, 0.25, 0.125) else None
        if fr is not None:
            truth, decidable = (W > fr * V), True
        else:
            gap = W - f * V
            truth, decidable = gap > 0, abs(gap) > 1e-6 * max(1, len(ballots))
        if W == fr * V if fr is not None else False:
            rec.count("stratum:exact_threshold_hit")
        m = list(means.values())[0]
        if use_style and n_listed == 0:
            rec.count("empty_population_skipped")
        elif decidable:
            rec.count("iff_checked:supermajority")
            rec.count("truth:winners_really_won" if truth else "truth:winners_did_not_win")
            if (m > 0.5) != truth:
                rec.violation("c02.iff", "supermajority:mean_disagrees_with_share",
                              {"mean": m, "W": W, "V": V, "share": f, "use_style": use_style})
    # ---- margins from tallies vs 2*mean-1 over ALL cards (contest.cards = number of cards) -----------------
    if len(cvrs) == 0:
        return
    has_overvote = any(b is not None and sum(1 for c in cands if c in b and truthy(b[c])) > (1 if kind == "supermajority" else len(winners))
                       for b in ballots)
    multi_mark = any(b is not None and sum(1 for c in cands if c in b and truthy(b[c])) > 1 for b in ballots)
    with np.errstate(all="ignore"):
        full_means = {}
        for name, a in asns.items():
            ok, mm = rec.guard(f"c02.call:mean:{kind}", a.assorter.mean, cvrs, False)
            if not ok:
                return
            full_means[name] = float(mm)

        # the mean over the cards that list the contest, taken AFTER the assorters have been applied to every card
        # (also to cards lacking the contest): a card lacking the contest scores 1/2, so
        # n_all mean_all = n_listed mean_listed + (n_all - n_listed)/2; evaluating a card must not change what it lists
        if n_listed and n_listed < len(cvrs):
            for name, a in asns.items():
                ok, ms = rec.guard(f"c02.call:mean:{kind}", a.assorter.mean, cvrs, True)
                if not ok:
                    return
                rec.count("style_mean_rechecked_after_scoring_cards_lacking_the_contest")
                lhs, rhs = len(cvrs) * full_means[name], n_listed * float(ms) + (len(cvrs) - n_listed) / 2
                if not math.isclose(lhs, rhs, rel_tol=1e-9, abs_tol=1e-9) or \
                        (use_style and not math.isclose(float(ms), means[name], rel_tol=1e-12, abs_tol=0)):
                    rec.violation("c02.margin", f"{kind}:mean_over_listed_cards_changed_after_scoring_all_cards",
                                  {"assertion": name, "mean_all": full_means[name], "mean_listed_now": float(ms),
                                   "mean_listed_before": means[name] if use_style else None, "n_all": len(cvrs),
                                   "n_listed": n_listed, "cards_listing_contest_now": sum(1 for c in cvrs if c.has_contest(con.id))})
                    return

        def cmp_margin(label, tally, applicable):
            if not applicable:
                return
            for name, a in asns.items():
                if prof.get("test_holds_comparison_bound") and a.margin is not None and a.margin == a.margin and a.margin < 2 * a.assorter.upper_bound:
                    # the margin was taken from the CVRs first (comparison audit): that route installs the comparison bound
                    # 2/(2 - v/u) in the test object; the margin from the tally is a property of the tally all the same
                    a.test.u = 2 / (2 - a.margin / a.assorter.upper_bound)
                    rec.count("margin_from_tally_asked_while_the_test_holds_the_comparison_bound")
                ok, _ = rec.guard(f"c02.call:find_margin_from_tally:{kind}", a.find_margin_from_tally, tally)
                if not ok:
                    return
                rec.count(f"margin_checked:{label}")
                want = 2 * full_means[name] - 1
                if not math.isclose(a.margin, want, rel_tol=1e-9, abs_tol=1e-12):
                    rec.violation("c02.margin", f"{kind}:{label}:margin_differs_from_2mean_minus_1",
                                  {"assertion": name, "margin": a.margin, "two_mean_minus_1": want, "tally": dict(tally)})
                    return

        # every other card only (a batch, a precinct): margin from that sub-collection's own tally vs its own mean
        if kind != "supermajority" and len(cvrs) >= 4:
            sub = cvrs[::2]
            stal = oracle_tally({"cands": cands, "ballots": ballots[::2]})
            for name, a in asns.items():
                ok, ms = rec.guard(f"c02.call:mean:{kind}", a.assorter.mean, sub, False)
                if not ok:
                    return
                rec.count("margin_checked:sub_collection")
                want = (stal[a.winner] - stal[a.loser]) / len(sub)
                if not math.isclose(2 * float(ms) - 1, want, rel_tol=1e-9, abs_tol=1e-12):
                    rec.violation("c02.margin", f"{kind}:sub_collection:two_mean_minus_1_differs_from_its_tally_margin",
                                  {"assertion": name, "two_mean_minus_1": 2 * float(ms) - 1, "tally_margin": want,
                                   "cards": len(sub), "pooled_batches": bool(prof.get("pooled"))})
                    return
        # (a) the oracle's raw tally: comparable when the assorter counts the same ballots (super-majority: no multi-mark ballot)
        tal_raw = oracle_tally(prof, with_write_ins=True)
        if len(tal_raw) > len(tal):
            rec.count("margin_tally_holds_write_in_votes")
        cmp_margin("oracle_tally", tal_raw, kind != "supermajority" or not multi_mark)
        # (b) Contest.tally with rules off
        ok, _ = rec.guard("c02.call:Contest.tally", Contest.tally, {"con": con}, cvrs, False)
        if ok:
            cmp_margin("contest_tally_rules_off", con.tally, kind != "supermajority" or not multi_mark)
        # (c) Contest.tally with rules enforced - tabulated together with another contest of the same cards whose number of
        #     winners differs (one call tabulates every contest handed to it, each by its own rules)
        other = Contest.from_dict({"id": "zz-other", "name": "zz-other", "risk_limit": 0.05, "cards": len(cvrs),
                                   "choice_function": Contest.SOCIAL_CHOICE_FUNCTION.PLURALITY,
                                   "n_winners": 1 if len(winners) > 1 else 3, "candidates": ["p", "q", "r", "s"],
                                   "winner": ["p"] if len(winners) > 1 else ["p", "q", "r"]})
        rec.count("tally_taken_together_with_a_contest_of_another_n_winners")
        ok, _ = rec.guard("c02.call:Contest.tally", Contest.tally, {"con": con, "zz-other": other}, cvrs, True)
        if ok:
            cmp_margin("contest_tally_rules_on", con.tally, (kind == "supermajority") or not has_overvote)
            # (d) the contest-level call on the same tally, in the state an audit leaves the objects in: margins hold
            # values from an earlier tally and some assertions are already marked confirmed
            if (kind == "supermajority") or not has_overvote:
                con.assertions = asns
                for j, a in enumerate(asns.values()):
                    a.margin = 0.9
                    a.proved = (j % 2 == 0)
                ok, _ = rec.guard(f"c02.call:Contest.find_margins_from_tally:{kind}", con.find_margins_from_tally)
                if ok:
                    rec.count("margin_checked:contest_level_call_with_confirmed_assertions")
                    for name, a in asns.items():
                        want = 2 * full_means[name] - 1
                        if not math.isclose(a.margin, want, rel_tol=1e-9, abs_tol=1e-12):
                            rec.violation("c02.margin", f"{kind}:contest_level_call:margin_differs_from_2mean_minus_1",
                                          {"assertion": name, "margin": a.margin, "two_mean_minus_1": want, "proved": a.proved,
                                           "tally": dict(con.tally)})
                            return
