"""C11 — reported p-values are well-formed and the overall value matches the history.

Deciding monitor: a contract (postcondition) installed on the six real test methods of NonnegMean.
Workload: stratified hostile samples (length 1, all-zero, all-u, all equal to t, total exceeding N t at
the first/middle/last draw, null conditional mean driven to 0 / u / beyond, tiny margins, census, ...)
x every shipped (test, estimator/bet) combination x random_order x finite/infinite N.
"""
import math
import random

import numpy as np

from vlib import contracts, nn

RULE = ("stratified + seeded random (configuration, sample) pairs inside the documented domains; a case is "
        "non-trivial if the sample is non-constant or reaches a boundary regime (length 1, null mean at 0/u/"
        "beyond, total > N t); distinct = hash of (configuration, sample)")
REQUIRED = [f"contract:NonnegMean.{t}" for t in nn.TESTS] + ["stratum:len1", "stratum:m_to_0", "stratum:m_to_u",
                                                             "stratum:m_above_u", "stratum:m_below_0",
                                                             "random_order_false", "stratum:nondyadic_runs", "stratum:long_sample", "stratum:exact_hit_then_zero_then_nondyadic", "stratum:null_mean_reaches_a_nondyadic_u_then_u_run", "stratum:total_passes_N_t_by_an_ulp", "configurations_whose_bound_is_not_a_dyadic_rational", "integer_dtype_samples", "object_warmed_up_with_another_N", "object_built_with_another_u",
            "object_used_on_another_sample_first", "calls_with_boundary_tolerances_passed_by_the_caller",
            "single_precision_samples", "samples_with_negative_zero", "random_order_false_given_as_numpy_bool_or_0",
            "finite_N_given_as_a_numpy_integer"]
ASSUMPTIONS = ["samples are numpy arrays of floats in [0,u] (dyadic in the boundary strata, runs of non-representable values in the nondyadic stratum); documented exclusions: finite-N SPRT with "
               "random_order=False (raises by design), Kaplan-Markov/Wald with finite N",
               "numpy/pandas are trusted"]
N_CASES = {"quick": 256000, "thorough": 2048000}


def _post(testname):
    def post(rec, result, a, k, old):
        self, x = a[0], a[1]
        x = np.asarray(x, dtype=float)
        u, N = self.u, self.N
        # precondition: documented domain; otherwise the contract does not apply
        if x.ndim != 1 or len(x) < 1 or (math.isfinite(N) and len(x) > N) or np.any(x < 0) or np.any(x > u) \
                or np.any(np.isnan(x)):
            rec.count("contract_pre_false")
            return
        estim = getattr(self.estim, "__name__", "")
        tag = testname
        if testname == "alpha_mart":
            tag += ":" + estim
        elif testname == "betting_mart":
            tag += ":" + getattr(self.bet, "__name__", "")
        rec.count("wellformed_checked")
        case = rec.current_case

        def bad(kind, detail):
            rec.violation("c11.wellformed", f"{tag}:{kind}", detail, case)

        try:
            p, h = result
            h = np.asarray(h, dtype=float)
            p = float(p)
        except Exception as e:
            bad("not_a_pair", repr(e))
            return
        if h.shape != (len(x),):
            bad("history_length", {"len_x": len(x), "shape": list(h.shape)})
            return
        if np.any(np.isnan(h)):
            kind = "nan_history"
            if testname in ("alpha_mart", "wald_sprt") and math.isfinite(N) and k.get("rtol", None) == 0:
                # mechanism of defect #29 (DESIGN 7.2; repaired by b32f485, recorded first as known finding KF-29): a 0/0 factor where mu_j == u exactly and x_j == u is
                # masked at its own index, but the cumulative product carries the NaN on; with the caller's rtol = 0 the
                # following indices (mu within rounding of u, not equal) are not masked
                S_ = np.insert(np.cumsum(x), 0, 0)[0:-1]
                m_ = (N * self.t - S_) / (N - np.arange(1, len(x) + 1) + 1)
                j0 = np.flatnonzero((m_ == u) & (x == u))
                first_nan = int(np.flatnonzero(np.isnan(h))[0])
                if len(j0) and first_nan > int(j0[0]) and abs(m_[first_nan] - u) <= 4 * np.finfo(float).eps * u:
                    kind = "nan_history:after_a_0_over_0_factor_at_mu_equal_u:rtol_0_leaves_the_next_index_unmasked"
            bad(kind, {"history": h, "x": x})
        elif np.any(h < 0):
            bad("negative_history", {"history": h, "x": x})
        elif np.any(h > 1):
            bad("history_above_1", {"history": h, "x": x})
        if math.isnan(p):
            bad("nan_p", {"p": p, "history": h})
        elif p < 0:
            bad("negative_p", {"p": p, "history": h})
        elif p > 1:
            bad("p_above_1", {"p": p, "history": h})
        if not np.any(np.isnan(h)) and not math.isnan(p):
            # the flag as the CALLER gave it (the workload records it; under the repository's own suite: the object's)
            ro = getattr(rec, "caller_random_order", None)
            ro = getattr(self, "random_order", True) if ro is None else ro
            want = float(np.min(h)) if ro else float(h[-1])
            if not math.isclose(p, want, rel_tol=1e-12, abs_tol=0.0):
                bad("overall_not_min" if ro else "overall_not_last", {"p": p, "expected": want, "history": h,
                                                                       "random_order": ro})
            if not ro:
                rec.count("random_order_false")
    return post


def install(rec):
    cls = nn.NM()
    for t in nn.TESTS:
        contracts.wrap(cls, t, rec, post=_post(t))


def plan(tier, seed):
    n = N_CASES[tier]
    shards = 16
    shards_ = [{"n": n // shards, "shard": i} for i in range(shards)]
    # plus the repository's own test-suite run with this check's contracts armed (DESIGN 6.4)
    return shards_ + [{"kind": "suite", "shard": 99}]


def run_shard(spec, rec):
    if spec.get("kind") == "suite":
        from vlib import suite
        suite.run_suite("checks.c11", rec)
        return
    rng = random.Random(f"c11-{spec['seed']}-{spec['shard']}")
    if spec["shard"] == 0:
        # the witness of defect #29 (repaired by b32f485), kept as a pinned regression case
        rec.count("pinned_witness_of_defect_29")
        run_case({"cfg": {"test": "wald_sprt", "estim": None, "bet": None, "u": 0.8333333333333334, "N": 6, "t": 0.625,
                          "random_order": True, "kw": {}, "default_eta": True},
                  "x": [0.625, 0.0, 0.625, 0.8333333333333334, 0.625, 0.625], "stratum": "pinned:KF-29",
                  "test_kwargs": {"atol": 0, "rtol": 0}}, rec)
    for i in range(spec["n"]):
        combo = nn.COMBOS[i % len(nn.COMBOS)]
        if i % 50 == 48:
            cfg = nn.gen_cfg(rng, combo=combo, finite=True)
            y = nn.gen_exact_hit_then_nondyadic(rng, cfg)
            if y and nn.in_domain(cfg, y):
                run_case({"cfg": cfg, "x": y, "stratum": "exact_hit_then_zero_then_nondyadic"}, rec)
            continue
        if i % 50 == 46:
            cfg = nn.gen_cfg(rng, combo=combo, finite=True)
            y = nn.gen_exceed_by_ulps(rng, cfg)
            if y and nn.in_domain(cfg, y):
                run_case({"cfg": cfg, "x": y, "stratum": "total_passes_N_t_by_an_ulp"}, rec)
            continue
        if i % 50 == 47:
            cfg = nn.gen_cfg(rng, combo=combo, finite=True)
            y = nn.gen_mean_reaches_u(rng, cfg)
            if y and nn.in_domain(cfg, y):
                run_case({"cfg": cfg, "x": y, "stratum": "null_mean_reaches_a_nondyadic_u_then_u_run"}, rec)
            continue
        if i % 50 == 49:
            cfg, desc = nn.gen_long(rng, combo)
            if nn.in_domain(cfg, nn.expand_long(desc, cfg)):
                run_case({"cfg": cfg, "x_long": desc, "stratum": "long_sample"}, rec)
            continue
        cfg = nn.gen_cfg(rng, combo=combo, allow_default_eta=True, nondyadic_u=0.15)
        st = nn.SAMPLE_STRATA[(i // len(nn.COMBOS)) % len(nn.SAMPLE_STRATA)]
        if i % 7 == 6:
            cfg = nn.gen_cfg(rng, combo=combo, n_max=rng.choice((12, 40, 200)))
        st, x = nn.gen_sample(rng, cfg, stratum=st, nondyadic=(1.0 if i % 7 == 6 else 0.0))
        if not nn.in_domain(cfg, x):
            continue
        if i % 17 == 16 and any(v == 0 for v in x):
            # the value zero in its other floating-point representation (the result of rounding a tiny negative number,
            # or of -1 * 0.0): it equals 0 and is a legitimate observation
            x = [(-0.0 if v == 0 else v) for v in x]
            rec.count("samples_with_negative_zero")
        case = {"cfg": cfg, "x": x, "stratum": st}
        if i % 13 == 12 and not cfg.get("int_dtype") and all(float(np.float32(v)) <= cfg["u"] for v in x):
            # (a value that rounds above the bound in single precision would be outside the documented domain)
            cfg["float_dtype"] = "float32"
            if rng.random() < 0.5:
                cfg["t"] = rng.choice((0.3, 0.4, 0.55, 0.6)) if cfg["u"] > 0.6 else cfg["t"]   # null means that single precision cannot hold
                if "eta" in cfg["kw"] and not cfg["t"] < cfg["kw"]["eta"] < cfg["u"]:
                    cfg["kw"]["eta"] = (cfg["t"] + cfg["u"]) / 2
        if i % 11 == 10 and cfg["test"] in ("alpha_mart", "betting_mart", "wald_sprt"):
            # the boundary tolerances are per-call tuning parameters of these three tests: exact comparison is a legal choice
            case["test_kwargs"] = rng.choice(({"atol": 0}, {"atol": 0, "rtol": 0}, {"rtol": 0}, {"atol": 1e-12}))
        run_case(case, rec)


def run_case(case, rec):
    cfg = case["cfg"]
    x = [float(v) for v in (case["x"] if "x" in case else nn.expand_long(case["x_long"], cfg))]
    st = case.get("stratum", "replay")
    N = nn.cfgN(cfg)
    if (cfg["u"] * 2.0 ** 30) % 1 != 0:
        rec.count("configurations_whose_bound_is_not_a_dyadic_rational")
    mu = nn.ref_mu(x, N, cfg["t"])
    boundary = len(x) == 1 or any(m <= 0 or m >= cfg["u"] for m in mu) or (math.isfinite(N) and sum(x) > N * cfg["t"])
    rec.case(case, nontrivial=(len(set(x)) > 1 or boundary))
    rec.count(f"stratum:{st}")
    if cfg.get("int_dtype") and all(float(v).is_integer() for v in x):
        rec.count("integer_dtype_samples")
    if "N_warm" in cfg:
        rec.count("object_warmed_up_with_another_N")
    if "u_built" in cfg:
        rec.count("object_built_with_another_u")
    if cfg.get("reused"):
        rec.count("object_used_on_another_sample_first")
    if cfg.get("float_dtype"):
        rec.count("single_precision_samples")
    if cfg.get("flag_repr") and not cfg.get("random_order", True):
        rec.count("random_order_false_given_as_numpy_bool_or_0")
    if cfg.get("N_repr"):
        rec.count("finite_N_given_as_a_numpy_integer")
    rec.count(f"combo:{nn.label(cfg)}")
    if any(m == 0 for m in mu):
        rec.count("regime:mu_exactly_0")
    if any(m == cfg["u"] for m in mu):
        rec.count("regime:mu_exactly_u")
    if any(m > cfg["u"] for m in mu):
        rec.count("regime:mu_above_u")
    if any(m < 0 for m in mu):
        rec.count("regime:mu_below_0")
    if math.isfinite(N) and sum(x) > N * cfg["t"]:
        rec.count("regime:total_exceeds_Nt")
    obj = nn.build(cfg)
    with np.errstate(all="ignore"):
        rec.caller_random_order = bool(cfg.get("random_order", True))
        tk = case.get("test_kwargs") or {}
        if tk:
            rec.count("calls_with_boundary_tolerances_passed_by_the_caller")
        rec.guard(f"c11.call:{nn.label(cfg)}", obj.test, nn.to_array(x, cfg), **tk)
        rec.caller_random_order = None
