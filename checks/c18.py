"""C18 — merging records for one card loses nothing and keeps its flags meaningful; RAIRE reader.

  c18.merge   contract on CVR.merge_cvrs: a deep snapshot of every input record is taken before the call (the merge
              mutates its inputs) and the returned list is compared with a reference fold over the snapshot:
              one record per id in first-appearance order, contests = union (later record wins within a contest),
              phantom = AND, pool = OR and of type bool, tally_pool = the common non-None value, ValueError iff two
              different non-None tally pools meet.
  c18.raire   CVR.from_raire / from_raire_file vs a reference parser: rank k for the k-th listed candidate, exactly
              int(first line) header lines skipped, one record per ballot id carrying all its contests.
"""
import copy
import os
import random
import shutil

from vlib import contracts, env

RULE = ("seeded random record lists with ids repeated 1-5 times (adjacent and interleaved), overlapping/disjoint contests, "
        "every phantom/pool/tally_pool combination incl. conflicts, a quarter of the lists with votes objects shared between "
        "cards; RAIRE inputs with 1-3 contests and repeated ballot "
        "ids; non-trivial = some id occurs more than once; distinct = hash of the input list")
REQUIRED = ["contract:CVR.merge_cvrs", "merge_checked", "merge_conflict_expected", "merged_with_pool_true",
            "merged_with_pool_false", "merged_phantom_mixed", "raire_checked", "raire_file_checked",
            "later_record_overrides_contest", "lists_whose_records_share_votes_objects",
            "raire_lines_where_a_candidate_shares_its_name_with_the_contest_or_ballot",
            "raire_file_fields_holding_characters_some_routines_split_lines_on", "raire_lines_listing_a_candidate_twice", "raire_file_identifiers_that_differ_by_a_leading_blank"]
ASSUMPTIONS = ["tally-pool conflict = two different non-None labels for one id (None is 'unknown')"]
N_CASES = {"quick": 80000, "thorough": 640000}


def plan(tier, seed):
    shards = 16
    shards_ = [{"n": N_CASES[tier] // shards, "shard": i} for i in range(shards)]
    # plus the repository's own test-suite run with this check's contracts armed (DESIGN 6.4)
    return shards_ + [{"kind": "suite", "shard": 99}]


# ---- reference fold -----------------------------------------------------------------------------------------
def ref_merge(snap):
    """snap: list of dicts(id, votes, phantom, pool, tally_pool).  Returns (list of merged dicts | None, conflict)."""
    out = {}
    order = []
    for r in snap:
        i = r["id"]
        if i not in out:
            out[i] = {"id": i, "votes": dict(r["votes"]), "phantom": bool(r["phantom"]), "pool": bool(r["pool"]),
                      "tally_pool": r["tally_pool"]}
            order.append(i)
        else:
            o = out[i]
            for con, v in r["votes"].items():
                o["votes"][con] = v  # later record wins within a contest
            o["phantom"] = o["phantom"] and bool(r["phantom"])
            o["pool"] = o["pool"] or bool(r["pool"])
            if r["tally_pool"] is not None:
                if o["tally_pool"] is None:
                    o["tally_pool"] = r["tally_pool"]
                elif o["tally_pool"] != r["tally_pool"]:
                    return None, True
    return [out[i] for i in order], False


def fresh(v):
    """An equal label that is a DIFFERENT object (labels parsed from files are: two records of one card never share the
    object): equality, not identity, is what makes two labels 'the common tally pool'."""
    if isinstance(v, str) and len(v) > 1:
        return "".join(list(v))
    if isinstance(v, bool) or v is None:
        return v
    if isinstance(v, int) and abs(v) > 256:
        return int(str(v))
    if isinstance(v, (list, tuple)):
        return tuple(fresh(x) for x in v)
    return v


def snapshot(cvr_list):
    return [{"id": c.id, "votes": copy.deepcopy(c.votes), "phantom": c.phantom, "pool": c.pool,
             "tally_pool": c.tally_pool} for c in cvr_list]


def _post(rec, result, a, k, old):
    snap = old
    if rec.counters.get("default_votes_object_contaminated") is None:
        from shangrla.core.Audit import CVR
        if CVR(id="probe").votes:
            # a record built without a votes argument must be empty: if it is not, some earlier call wrote into the
            # constructor's default object (reported once; everything after it in this process is contaminated)
            rec.count("default_votes_object_contaminated")
            rec.violation("c18.merge", "a_record_built_without_votes_is_not_empty_after_earlier_merges",
                          {"votes_of_a_fresh_record": repr(CVR(id="probe").votes)[:200]}, rec.current_case)

    want, conflict = ref_merge(snap)
    rec.count("merge_checked")
    case = rec.current_case
    if conflict:
        rec.violation("c18.merge", "tally_pool_conflict_silently_dropped", {"input": snap}, case)
        return
    got = [{"id": c.id, "votes": c.votes, "phantom": c.phantom, "pool": c.pool, "tally_pool": c.tally_pool} for c in result]
    if [g["id"] for g in got] != [w["id"] for w in want]:
        rec.violation("c18.merge", "ids_missing_duplicated_or_reordered", {"got": [g["id"] for g in got],
                                                                             "want": [w["id"] for w in want]}, case)
        return
    for g, w in zip(got, want):
        if set(g["votes"]) != set(w["votes"]):
            rec.violation("c18.merge", "contest_lost_or_invented", {"id": g["id"], "got": g["votes"], "want": w["votes"]}, case)
            return
        if g["votes"] != w["votes"]:
            rec.violation("c18.merge", "earlier_record_wins_within_contest", {"id": g["id"], "got": g["votes"],
                                                                              "want": w["votes"]}, case)
            return
        if type(g["pool"]) is not bool:
            rec.violation("c18.merge", "pool_flag_not_a_bool", {"id": g["id"], "type": type(g["pool"]).__name__}, case)
            return
        if g["pool"] != w["pool"]:
            rec.violation("c18.merge", "pool_flag_not_the_or_of_inputs", {"id": g["id"], "got": g["pool"], "want": w["pool"]}, case)
            return
        if bool(g["phantom"]) != w["phantom"] or type(g["phantom"]) is not bool:
            rec.violation("c18.merge", "phantom_flag_wrong", {"id": g["id"], "got": g["phantom"], "want": w["phantom"]}, case)
            return
        if g["tally_pool"] != w["tally_pool"]:
            rec.violation("c18.merge", "tally_pool_wrong", {"id": g["id"], "got": g["tally_pool"], "want": w["tally_pool"]}, case)
            return


def install(rec):
    from shangrla.core.Audit import CVR
    contracts.wrap(CVR, "merge_cvrs", rec, post=_post, pre=lambda a, k: snapshot(k.get("cvr_list", a[1] if len(a) > 1 else None)))


# ---- generators ---------------------------------------------------------------------------------------------
def gen_records(rng):
    n_ids = rng.randint(1, 6)
    ids = [f"b{j}" for j in range(n_ids)]
    contests = ["c1", "c2", "c3"][: rng.randint(1, 3)]
    if rng.random() < 0.2:
        contests = [339, 7, "c3"][: len(contests)]     # contest identifiers that are numbers, not strings
    recs = []
    mode = rng.choice(("adjacent", "interleaved", "single"))
    seq = []
    for i in ids:
        seq += [i] * (1 if mode == "single" and rng.random() < 0.7 else rng.randint(1, 5))
    if mode == "interleaved":
        rng.shuffle(seq)
    # labels include falsy-but-not-None values (batch number 0, empty string): None alone means "unknown"
    pools_for = {i: rng.choice((None, "p1", "p1", "p2", 0, "", 1, 1000, "precinct-17/batch-3")) for i in ids}
    conflict_ids = set(i for i in ids if rng.random() < 0.12)
    # a quarter of the lists build their records from a few template dicts: records of DIFFERENT cards then hold the very
    # same votes object (or, for an empty selection, no votes argument at all: the constructor's default)
    templates = None
    if rng.random() < 0.25:
        templates = [{}] + [{c: {rng.choice("ABCD"): rng.choice((1, 2, True, "x", 0)) for _ in range(rng.randint(0, 3))}
                             for c in rng.sample(contests, rng.randint(1, len(contests)))} for _ in range(2)]
    for i in seq:
        cs = rng.sample(contests, rng.randint(0, len(contests)))
        votes = {c: {rng.choice("ABCD"): rng.choice((1, 2, True, "x", 0)) for _ in range(rng.randint(0, 3))} for c in cs}
        tmpl = None
        if templates is not None and rng.random() < 0.6:
            tmpl = rng.randrange(len(templates))
            votes = copy.deepcopy(templates[tmpl])
        tp = pools_for[i] if rng.random() < 0.6 else None
        if i in conflict_ids and rng.random() < 0.5:
            # (also labels of another type that print like the card's own: batch 1 vs "1" are different batches)
            tp = rng.choice(("p1", "p2", "p3", 0, "", "0", "1", "1000", 1.0, False))
        recs.append({"id": i, "votes": votes, "phantom": rng.random() < 0.4, "pool": rng.random() < 0.35, "tally_pool": tp}
                    | ({"_tmpl": tmpl} if tmpl is not None else {}))
    return recs


def gen_raire(rng):
    ncon = rng.randint(1, 3) if rng.random() < 0.9 else rng.choice((10, 12, 25))
    cons = [f"{100 + j}" for j in range(ncon)]
    cands = {c: [str(rng.randint(1, 9) * 10 + k) for k in range(rng.randint(2, 5))] for c in cons}
    small = (ncon <= 3 and rng.random() < 0.25) or (ncon >= 10 and rng.random() < 0.6)   # (a dozen contests numbered 1..12 too)
    if small:
        # contests, candidates and ballots numbered from 1, each in its own name space: the same token ("1", "2") names a
        # contest, a candidate and a ballot
        cons = [str(j + 1) for j in range(ncon)]
        cands = {c: [str(k + 1) for k in range(rng.randint(2, 5))] for c in cons}
    elif rng.random() < 0.3:
        # the format is CSV: names may be quoted and contain commas or quotes
        for c in cons:
            cands[c] = [rng.choice(("Smith, John", "O\"Neil", "Lee", "Ng, A.", "van der Berg", "X Y")) + str(k) for k in range(len(cands[c]))]
    elif rng.random() < 0.15:
        # names holding characters that some text routines treat as line boundaries (form feed, group separator, the
        # Unicode line separator) or a quoted line break: to the CSV format they are ordinary data inside a field
        for c in cons:
            cands[c] = [rng.choice(("Ann\x0cLee", "Bo\u2028Ek", "Cy\x1dDu", "Di\nFa", "Eve\x85G", "Lee")) + str(k) for k in range(len(cands[c]))]
        cands[cons[0]][0] = "Ann\x0cLee0"
    if rng.random() < 0.1:
        # a contest whose identifier is a word the format itself uses
        word = rng.choice(("Contest", "winner", "informal"))
        cands[word] = cands.pop(cons[0])
        cons[0] = word
    rows = [[str(ncon)]]
    for c in cons:
        rows.append(["Contest", c, str(len(cands[c]))] + cands[c] + ["winner", cands[c][0]])
    nb = rng.randint(0, 12) if ncon < 10 else rng.randint(20, 40)   # (with contests 1..12 and ballots 1..40, "1"+"23" reads like "12"+"3")
    bids = [str(j + 1) for j in range(nb)] if small else [f"1_{rng.randint(1, 3)}_{j}" for j in range(nb)]
    if bids and rng.random() < 0.15:
        # two cards whose identifiers differ by a leading blank only (fixed-width numbering exported as text): two cards
        bids.append(" " + bids[0])
    lines = []
    for b in bids:
        for c in rng.sample(cons, rng.randint(1, min(ncon, 3))):
            k = rng.randint(0, len(cands[c]))
            lines.append([c, b] + rng.sample(cands[c], k))
    if lines and rng.random() < 0.15:
        # a line that lists a candidate twice (a data-entry slip the format does not forbid), with other candidates after
        # the repeat: those still are the k-th listed
        l0 = rng.choice(lines)
        if len(l0) >= 4:
            j = rng.randint(3, len(l0) - 1)
            l0.insert(j, rng.choice(l0[2:j]))
    if lines and rng.random() < 0.3:   # the same (ballot, contest) twice: the later line wins
        l0 = rng.choice(lines)
        lines.append([l0[0], l0[1]] + rng.sample(cands[l0[0]], rng.randint(0, len(cands[l0[0]]))))
        if rng.random() < 0.4:
            lines.append(list(l0))   # ... and the first version once more, verbatim (a correction that was reverted)
    if rng.random() < 0.5:
        rng.shuffle(lines)
    return rows + lines


def ref_raire(rows):
    skip = int(rows[0][0])
    out, order = {}, []
    for r in rows[1 + skip:]:
        con, bid, prefs = r[0], r[1], r[2:]
        if bid not in out:
            out[bid] = {}
            order.append(bid)
        out[bid][con] = {str(c): k + 1 for k, c in enumerate(prefs)}
    return [(b, out[b]) for b in order]


def run_shard(spec, rec):
    if spec.get("kind") == "suite":
        from vlib import suite
        suite.run_suite("checks.c18", rec)
        return
    rng = random.Random(f"c18-{spec['seed']}-{spec['shard']}")
    for i in range(spec["n"]):
        if i % 4 < 3:
            run_case({"kind": "merge", "records": gen_records(rng)}, rec)
        else:
            run_case({"kind": "raire", "rows": gen_raire(rng), "via_file": i % 8 == 7}, rec)


def run_case(case, rec):
    from shangrla.core.Audit import CVR
    if case["kind"] == "merge":
        recs = case["records"]
        ids = [r["id"] for r in recs]
        rec.case(case, nontrivial=len(set(ids)) < len(ids))
        want, conflict = ref_merge(recs)
        shared = {}
        cvrs = []
        for r in recs:
            if "_tmpl" not in r:
                cvrs.append(CVR(id=r["id"], votes=copy.deepcopy(r["votes"]), phantom=r["phantom"], pool=r["pool"],
                                tally_pool=fresh(r["tally_pool"])))
            elif not r["votes"]:
                cvrs.append(CVR(id=r["id"], phantom=r["phantom"], pool=r["pool"], tally_pool=r["tally_pool"]))
            else:
                cvrs.append(CVR(id=r["id"], votes=shared.setdefault(r["_tmpl"], copy.deepcopy(r["votes"])), phantom=r["phantom"],
                                pool=r["pool"], tally_pool=r["tally_pool"]))
        if shared or any("_tmpl" in r for r in recs):
            rec.count("lists_whose_records_share_votes_objects")
        if not conflict:
            merged_ids = [i for i in set(ids) if ids.count(i) > 1]
            for i in merged_ids:
                rs = [r for r in recs if r["id"] == i]
                rec.count("merged_with_pool_true" if any(r["pool"] for r in rs) else "merged_with_pool_false")
                if len(set(r["phantom"] for r in rs)) > 1:
                    rec.count("merged_phantom_mixed")
                seen = set()
                for r in rs:
                    if seen & set(r["votes"]):
                        rec.count("later_record_overrides_contest")
                    seen |= set(r["votes"])
        try:
            CVR.merge_cvrs(cvrs)
            raised = False
        except ValueError:
            raised = True
        except Exception as e:
            ok, _ = rec.guard("c18.call:merge_cvrs", lambda: (_ for _ in ()).throw(e))
            return
        if conflict:
            rec.count("merge_conflict_expected")
            if not raised:
                pass  # reported by the contract (tally_pool_conflict_silently_dropped)
        elif raised:
            rec.violation("c18.merge", "raised_without_conflict", {"input": recs})
    else:
        rows = case["rows"]
        want = ref_raire(rows)
        bids = [r[1] for r in rows[1 + int(rows[0][0]):]]
        rec.case(case, nontrivial=len(set(bids)) < len(bids))
        if case.get("via_file"):
            d = env.scratch_dir("c18")
            try:
                path = os.path.join(d, "in.raire")
                import csv
                with open(path, "w", newline="") as f:
                    csv.writer(f, delimiter=",", quotechar='"', quoting=csv.QUOTE_MINIMAL, lineterminator="\n").writerows(rows)
                ok, res = rec.guard("c18.call:from_raire_file", CVR.from_raire_file, path)
            finally:
                shutil.rmtree(d, ignore_errors=True)
            if not ok:
                return
            cvrs = res[0]
            rec.count("raire_file_checked")
            if any(r[1].startswith(" ") for r in rows[1 + int(rows[0][0]):]):
                rec.count("raire_file_identifiers_that_differ_by_a_leading_blank")
            if any(ch in fld for r in rows for fld in r for ch in "\x0c\u2028\x1d\n\x85"):
                rec.count("raire_file_fields_holding_characters_some_routines_split_lines_on")
            if res[2] != len(cvrs):
                rec.violation("c18.raire", "unique_id_count_wrong", {"reported": res[2], "len": len(cvrs)})
        else:
            ok, res = rec.guard("c18.call:from_raire", CVR.from_raire, [list(r) for r in rows])
            if not ok:
                return
            cvrs = res[0]
        rec.count("raire_checked")
        if any(len(set(r[2:])) < len(r[2:]) for r in rows[1 + int(rows[0][0]):]):
            rec.count("raire_lines_listing_a_candidate_twice")
        if any(r[0] in r[2:] or r[1] in r[2:] for r in rows[1 + int(rows[0][0]):]):
            rec.count("raire_lines_where_a_candidate_shares_its_name_with_the_contest_or_ballot")
        got = [(c.id, c.votes) for c in cvrs]
        if [g[0] for g in got] != [w[0] for w in want]:
            rec.violation("c18.raire", "ballot_ids_wrong", {"got": [g[0] for g in got], "want": [w[0] for w in want]})
            return
        line_for = {(r[1], r[0]): r[2:] for r in rows[1 + int(rows[0][0]):]}     # (the later line for a ballot and contest wins)

        def same_up_to_repeats(bid, g_, w_):
            # a candidate the line lists more than once has no single "k-th listed" position: any of its positions is
            # accepted for it; every other candidate must have exactly its own
            if set(g_) != set(w_):
                return False
            for con_ in w_:
                prefs = [str(z) for z in line_for.get((bid, con_), [])]
                if not isinstance(g_[con_], dict) or set(g_[con_]) != set(w_[con_]):
                    return False
                for k_ in w_[con_]:
                    ok_ = [q + 1 for q, z in enumerate(prefs) if z == k_] if prefs.count(k_) > 1 else [w_[con_][k_]]
                    if g_[con_][k_] not in ok_:
                        return False
            return True

        for (gi, gv), (wi, wv) in zip(got, want):
            if gv != wv and same_up_to_repeats(wi, gv, wv):
                rec.count("ranks_differ_only_for_candidates_listed_twice")
                continue
            if gv != wv:
                mech = "contest_lost" if set(gv) != set(wv) else "rank_not_position_in_line"
                rec.violation("c18.raire", mech, {"ballot": gi, "got": gv, "want": wv})
                return
        for c in cvrs:
            if c.phantom or c.pool or c.tally_pool is not None:
                rec.violation("c18.raire", "flags_invented", {"ballot": c.id, "phantom": c.phantom, "pool": c.pool})
                return
