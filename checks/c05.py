"""C05 — non-anticipation: the p-value after j draws depends only on those j draws.

History monitor over recorded calls on the same configured object (bit-exact comparison, NaN == NaN):
  c05.prefix    h(x)[:k] == h(x[:k] + y)[:k]          for tails y (all-zero, all-u, random) with k+len(y) <= N
  c05.truncate  h(x[:k])[:k-1] == h(x)[:k-1]  and  h(x[:k])[k-1] <= h(x)[k-1]
  c05.estim     estim(x)[j] == estim(x')[j], bet(x)[j] == bet(x')[j] for x' differing from x only at positions >= j
  c05.increment for tests whose alternative is not exposed (and all others): with the first k draws fixed, the factor by
                which the statistic grows on draw k+1, T_{k+1}/T_k = h[k-1]/h[k], is read from histories on
                x[:k]+[v], v in {0, u/2, u}.  Every shipped statistic multiplies by a factor that is affine in the current
                observation with coefficients fixed by the earlier draws (the alternative / bet); a coefficient that
                looks at the current draw makes the three factors non-collinear.  Only entries strictly inside (1e-280,1) are
                used (clamped or boundary entries carry no information; subnormal ones have lost their precision).
"""
import math
import random

import numpy as np

from vlib import nn

RULE = ("(configuration, sample x, cut k, replacement tail y) tuples, stratified over all shipped tests/estimators/"
        "bets, finite and infinite N, k in {1, n-1, random}; non-trivial = x is non-constant and the tail differs from "
        "the original tail; distinct = hash of the tuple")
REQUIRED = [f"prefix_checked:{nn.label({'test': a, 'estim': b, 'bet': c})}" for a, b, c in nn.COMBOS] + \
           ["truncate_checked", "estim_checked", "bet_checked", "k_is_1", "k_is_n_minus_1", "truncation_lowered_kth"] + \
           [f"increment_affine_checked:{t}" for t in sorted({c[0] for c in nn.COMBOS})] + ["long_samples", "configurations_whose_bound_is_not_a_dyadic_rational", "populations_a_million_times_the_sample"]
ASSUMPTIONS = ["numpy's cumulative kernels are sequential, so prefix-stability is checked with bit equality",
               "both samples continue beyond the cut (the property's own hypothesis)"]
N_CASES = {"quick": 160000, "thorough": 1500000}


def plan(tier, seed):
    shards = 16
    return [{"n": N_CASES[tier] // shards, "shard": i} for i in range(shards)]


def run_shard(spec, rec):
    rng = random.Random(f"c05-{spec['seed']}-{spec['shard']}")
    for i in range(spec["n"]):
        combo = nn.COMBOS[i % len(nn.COMBOS)]
        if i % 100 == 99:
            # long samples (600-2500 draws): the running product leaves the floating-point range before the cut
            cfg, desc = nn.gen_long(rng, combo)
            x = nn.expand_long(desc, cfg)
            if nn.in_domain(cfg, x):
                n = len(x)
                k = rng.choice((n // 2, n // 2 + 1, n - 1, rng.randint(1, n - 1)))
                u = cfg["u"]
                y = [rng.choice((0.0, u)) for _ in range(min(3, (nn.cfgN(cfg) if cfg["N"] != "inf" else n + 3) - k))]
                if y:
                    rec.count("long_samples")
                    run_case({"cfg": cfg, "x_long": desc, "k": k, "y": y, "stratum": "long_sample", "tail": "random"}, rec)
            continue
        cfg = nn.gen_cfg(rng, combo=combo, n_max=rng.choice((4, 8, 12, 30)), nondyadic_u=0.15)
        N = nn.cfgN(cfg)
        cap = N if math.isfinite(N) else 20
        if cap < 2:
            continue
        st, x = nn.gen_sample(rng, cfg, n_max=20, nondyadic=0.15)
        if len(x) < 2:
            x = x + [rng.choice((0.0, cfg["u"], cfg["t"]))]
        x = x[:cap]
        if not nn.in_domain(cfg, x):
            continue
        n = len(x)
        kmode = i // len(nn.COMBOS) % 3
        k = 1 if kmode == 0 else (n - 1 if kmode == 1 else rng.randint(1, n - 1))
        if math.isfinite(N) and n >= 4 and rng.random() < 0.08:
            # a population about a million times the sample (a state-wide contest, a first handful of cards): the null mean
            # barely moves, but it is a function of the draws so far - not of how many draws the caller happens to pass
            cfg["N"] = 10 ** 6 * rng.randint(2, n - 1)
            cfg.pop("N_warm", None)
            cap = n
            k = rng.randint(1, n - 1)
            rec.count("populations_a_million_times_the_sample")
        tl = rng.randint(1, cap - k)
        tk = rng.choice(("zeros", "us", "random", "random"))
        u = cfg["u"]
        y = [0.0] * tl if tk == "zeros" else [u] * tl if tk == "us" else \
            [rng.choice((0.0, u / 4, u / 2, u, cfg["t"])) for _ in range(tl)]
        run_case({"cfg": cfg, "x": x, "k": k, "y": y, "stratum": st, "tail": tk}, rec)


def same(a, b):
    a, b = np.asarray(a, dtype=float), np.asarray(b, dtype=float)
    return a.shape == b.shape and bool(np.all((a == b) | (np.isnan(a) & np.isnan(b))))


def _arr(v, n):
    a = np.asarray(v, dtype=float)
    return np.full(n, float(a)) if a.ndim == 0 else a


def run_case(case, rec):
    cfg, k, y = case["cfg"], int(case["k"]), [float(v) for v in case["y"]]
    x = [float(v) for v in (case["x"] if "x" in case else nn.expand_long(case["x_long"], cfg))]
    n = len(x)
    rec.case(case, nontrivial=(len(set(x)) > 1 and y != x[k:k + len(y)]))
    if (cfg["u"] * 2.0 ** 30) % 1 != 0:
        rec.count("configurations_whose_bound_is_not_a_dyadic_rational")
    if k == 1:
        rec.count("k_is_1")
    if k == n - 1:
        rec.count("k_is_n_minus_1")
    lab = nn.label(cfg)
    obj = nn.build(cfg)
    x2 = x[:k] + y
    with np.errstate(all="ignore"):
        ok, r_full = rec.guard(f"c05.call:{lab}", obj.test, nn.to_array(x, cfg))
        ok2, r_alt = rec.guard(f"c05.call:{lab}", obj.test, nn.to_array(x2, cfg))
        ok3, r_cut = rec.guard(f"c05.call:{lab}", obj.test, nn.to_array(x[:k], cfg))
        if not (ok and ok2 and ok3):
            return
        h, h2, hc = (np.asarray(r[1], dtype=float) for r in (r_full, r_alt, r_cut))
        rec.count(f"prefix_checked:{lab}")
        if not same(h[:k], h2[:k]):
            j = next(i for i in range(k) if not same(h[i:i + 1], h2[i:i + 1]))
            rec.violation("c05.prefix", f"{lab}:history_depends_on_later_draws",
                          {"first_index": j, "k": k, "h_x": h, "h_alt": h2, "x": x, "x_alt": x2})
        rec.count("truncate_checked")
        if len(hc) != k or not same(hc[:k - 1], h[:k - 1]):
            rec.violation("c05.truncate", f"{lab}:truncation_changes_earlier_entries", {"k": k, "h_cut": hc, "h_x": h})
        elif not (hc[k - 1] <= h[k - 1] or (math.isnan(hc[k - 1]) and math.isnan(h[k - 1]))):
            rec.violation("c05.truncate", f"{lab}:truncation_raises_kth", {"k": k, "h_cut_k": hc[k - 1], "h_x_k": h[k - 1],
                                                                           "h_cut": hc, "h_x": h})
        elif hc[k - 1] < h[k - 1]:
            rec.count("truncation_lowered_kth")
            N = nn.cfgN(cfg)
            # the total in the arithmetic the code itself uses (sequential float addition; Python's built-in sum() is
            # compensated since 3.12 and can differ by an ulp on non-dyadic data)
            tot = float(np.cumsum(np.array(x[:k], dtype=float))[-1])
            if not (math.isfinite(N) and tot > N * cfg["t"]):
                rec.violation("c05.truncate", f"{lab}:kth_lowered_without_total_exceeding",
                              {"k": k, "h_cut_k": hc[k - 1], "h_x_k": h[k - 1], "sum": tot, "N_t": N * cfg["t"]})
        # growth factor on draw k+1 is affine in that draw, its coefficients fixed by draws 1..k
        if k + 1 <= (nn.cfgN(cfg) if math.isfinite(nn.cfgN(cfg)) else k + 1):
            u = cfg["u"]
            hs = []
            for v in (0.0, u / 2, u):
                xv = x[:k] + [v]
                if not nn.in_domain(cfg, xv):
                    break
                okv, rv = rec.guard(f"c05.call:{lab}", obj.test, nn.to_array(xv, cfg))
                if not okv:
                    break
                hs.append(np.asarray(rv[1], dtype=float))
            if len(hs) == 3 and all(len(a) == k + 1 for a in hs) and all(1e-280 < a[k - 1] < 1 and 1e-280 < a[k] < 1 for a in hs) \
                    and same(hs[0][:k], hs[1][:k]) and same(hs[0][:k], hs[2][:k]):
                r0, r1, r2 = (float(a[k - 1] / a[k]) for a in hs)
                rec.count(f"increment_affine_checked:{cfg['test']}")
                if abs(r1 - (r0 + r2) / 2) > 1e-9 * max(abs(r0), abs(r1), abs(r2)):
                    rec.violation("c05.increment", f"{lab}:growth_factor_coefficients_depend_on_current_draw",
                                  {"k": k, "prefix": x[:k], "factor_at_0": r0, "factor_at_u/2": r1, "factor_at_u": r2,
                                   "second_difference": r0 + r2 - 2 * r1})
        # estimator / bet: entry j unaffected by any change at positions >= j
        for which in ("estim", "bet"):
            name = cfg.get(which)
            if not name:
                continue
            fn = getattr(obj, which)
            ok, a = rec.guard(f"c05.call:{name}", fn, nn.to_array(x, cfg))
            okb, b = rec.guard(f"c05.call:{name}", fn, nn.to_array(x2, cfg))
            if not (ok and okb):
                continue
            a, b = _arr(a, n), _arr(b, len(x2))
            rec.count(f"{which}_checked")
            # x and x2 agree on positions < k, so entries 0..k (0-based: the value applied to observation k+1
            # may use x_1..x_k) must agree
            upto = min(k + 1, len(a), len(b))
            if not same(a[:upto], b[:upto]):
                j = next(i for i in range(upto) if not same(a[i:i + 1], b[i:i + 1]))
                rec.violation("c05.estim", f"{name}:value_{'uses_current_or_later_draw' if j <= k else 'differs'}",
                              {"first_index": j, "k": k, "x": x, "x_alt": x2, "on_x": a, "on_alt": b})
