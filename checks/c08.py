"""C08 — phantom records account for every possible card and are scored worst-case.

  c08.accounting  contract on the real CVR.make_phantoms (pre: snapshot of the input list - identities and a deep copy;
                  post): with style, for EVERY contest the number of returned records listing it equals the contest's
                  card bound (the stratum bound if unspecified); without style the total equals the stratum bound and every
                  contest's bound is set to it; originals come back first, in order, unchanged; phantom ids are unique;
                  no more phantoms than the largest shortfall; contest.cvrs counts the real records listing the contest.
  c08.worstcase   history monitor over every (mvr, cvr) pair of the simulated audit: replacing the manual record by a
                  phantom never raises the real overstatement assorter, and the drop equals the manual record's
                  reference assorter value (phantom MVR scored exactly 0).
  c08.phantomcvr  an unpooled phantom CVR is scored 1/2 (overstatement + reference MVR score == 1/2); a pooled phantom CVR
                  contributes exactly 1/2 to its batch's mean (reference batch means).
"""
import copy
import math
import random

import numpy as np

from vlib import contracts
from vlib import election as E

RULE = ("simulated elections with per-contest shortfalls none / one / all different / unspecified bounds, style on and off, "
        "phantoms labelled into an existing pool / a new pool / no pool; scoring over every (mvr, cvr) pair and every "
        "assorter kind; non-trivial = phantoms were created for at least two contests with different shortfalls, or a "
        "phantom MVR lowered the assorter; distinct = hash of the spec")
REQUIRED = ["contract:CVR.make_phantoms", "accounting_checked:style", "accounting_checked:no_style", "phantoms_created",
            "zero_shortfall_after_positive_shortfall", "bounds_unspecified", "worstcase_pairs", "phantom_mvr_strictly_lower",
            "phantom_cvr_pairs", "phantom_cvr_with_votes_pairs", "second_call_on_same_input_list", "shortfalls_all_different",
            "pool_means_with_phantoms_checked", "pool_means_with_phantoms_checked:assorter_bound_not_1",
            "audit_wide_max_cards_differs_from_stratum_bound", "phantom_mvrs_for_sampled_phantom_cards_checked",
            "phantom_mvrs_for_sampled_phantom_cards_checked:another_prefix", "contest_with_card_bound_zero", "call_on_a_list_that_already_holds_phantoms:no_style",
            "phantom_manual_record_built_by_from_raire", "phantom_mvrs_for_manifest_lookups_checked", "phantom_mvrs_for_manifest_lookups_checked:hart", "contests_dict_keyed_by_something_other_than_the_identifier", "worstcase_data_route_checked", "phantom_mvrs_for_sampled_phantom_cards_checked:prepared_manifest", "manifests_listing_more_cards_than_there_are_cvrs", "phantoms_created_for_a_list_in_which_a_record_already_uses_the_prefix", "phantom_mvrs_for_sampled_phantom_cards_checked:hart_two_phantom_batches", "assorter:plurality", "assorter:supermajority", "assorter:irv"]
ASSUMPTIONS = ["card bounds >= number of records listing the contest; with style the input list holds no phantoms (the "
               "function is documented for 'the reported CVRs'); without style it may",
               "phantom identifiers must be distinct from the input records' identifiers when no input identifier starts with "
               "the phantom prefix (the caller's side of the naming convention); when one does, uniqueness among the phantoms "
               "themselves is what is asserted",
               "a phantom labelled pooled inside a pooled batch is scored with that batch's mean by design (C03 depends "
               "on it): the 1/2 clause is asserted for unpooled phantom CVRs"]
N_CASES = {"quick": 19200, "thorough": 160000}


def pre_phantoms(a, k):
    pos = list(a[1:])  # a[0] is the class (classmethod)
    audit = k.get("audit", pos[0] if len(pos) > 0 else None)
    contests = k.get("contests", pos[1] if len(pos) > 1 else None)
    cvr_list = k.get("cvr_list", pos[2] if len(pos) > 2 else None)
    st = next(iter(audit.strata.values()))
    return {"objs": list(cvr_list),
            "snap": [(c.id, copy.deepcopy(c.votes), c.phantom, c.pool, c.tally_pool, c.sample_num) for c in cvr_list],
            "bounds": {cid: con.cards for cid, con in contests.items()}, "use_style": st.use_style,
            "max_cards": st.max_cards, "tally_pool": k.get("tally_pool", pos[4] if len(pos) > 4 else None),
            "pool": k.get("pool", pos[5] if len(pos) > 5 else False),
            "contests": contests}


def post_phantoms(rec, result, a, k, old):
    case = rec.current_case
    lst, nph = result
    n0 = len(old["objs"])
    style = old["use_style"]
    contests = old["contests"]

    def bad(mech, detail):
        rec.violation("c08.accounting", ("style:" if style else "no_style:") + mech, detail, case)

    if len(lst) < n0 or any(x is not y for x, y in zip(lst[:n0], old["objs"])):
        return bad("original_records_not_first_or_reordered", {"n_in": n0, "n_out": len(lst)})
    now = [(c.id, c.votes, c.phantom, c.pool, c.tally_pool, c.sample_num) for c in lst[:n0]]
    if now != old["snap"]:
        j = next(i for i in range(n0) if now[i] != old["snap"][i])
        return bad("original_record_changed", {"index": j, "before": old["snap"][j], "after": now[j]})
    ph = lst[n0:]
    if nph != len(ph):
        return bad("returned_count_differs_from_records_added", {"n_phantoms": nph, "added": len(ph)})
    if any(not p.phantom for p in ph):
        return bad("added_record_not_flagged_phantom", {})
    ids = [p.id for p in ph]
    # "phantom identifiers are unique": among themselves always; and distinct from the input records' identifiers whenever
    # the caller kept the prefix for phantoms (no input identifier starts with it) - a list whose records already use the
    # prefix needs a fresh one (see ASSUMPTIONS)
    prefix_ = k.get("prefix", "phantom-1-")
    prefix_in_use = any(str(s[0]).startswith(prefix_) for s in old["snap"])
    if len(set(ids)) != len(ids) or (not prefix_in_use and set(ids) & set(s[0] for s in old["snap"])):
        return bad("phantom_ids_not_unique", {"ids": ids[:8]})
    if prefix_in_use and nph >= 2:
        rec.count("phantoms_created_for_a_list_in_which_a_record_already_uses_the_prefix")
    if any(p.tally_pool != old["tally_pool"] or p.pool != old["pool"] for p in ph):
        return bad("phantom_pool_label_wrong", {"want": [old["tally_pool"], old["pool"]]})
    if nph:
        rec.count("phantoms_created")
    # (the dict's keys are the caller's handles; what records list is the Contest object's identifier)
    real_counts = {cid: sum(1 for s in old["snap"] if con.id in s[1] and not s[2]) for cid, con in contests.items()}
    for cid, con in contests.items():
        if con.cvrs != real_counts[cid]:
            return bad("contest_cvrs_count_wrong", {"contest": cid, "cvrs": int(con.cvrs), "want": real_counts[cid]})
    if style:
        rec.count("accounting_checked:style")
        want_bound = {cid: (old["max_cards"] if b is None else b) for cid, b in old["bounds"].items()}
        shortfalls = []
        seen_positive = False
        for cid, con in contests.items():
            listed = sum(1 for c in lst if c.has_contest(con.id))
            sf = want_bound[cid] - real_counts[cid]
            shortfalls.append(sf)
            if sf == 0 and seen_positive:
                rec.count("zero_shortfall_after_positive_shortfall")
            if sf > 0:
                seen_positive = True
            if old["bounds"][cid] is None:
                rec.count("bounds_unspecified")
            if con.cards != want_bound[cid]:
                return bad("contest_card_bound_changed", {"contest": cid, "cards": con.cards, "want": want_bound[cid]})
            if listed != want_bound[cid]:
                return bad("records_listing_contest_differ_from_its_card_bound",
                           {"contest": cid, "records_listing": listed, "card_bound": want_bound[cid], "real": real_counts[cid],
                            "phantoms": nph, "all_shortfalls": dict(zip(contests, shortfalls))})
        if len(set(s for s in shortfalls if s > 0)) >= 2:
            rec.count("shortfalls_all_different")
        if nph > max([0] + shortfalls):
            return bad("more_phantoms_than_the_largest_shortfall", {"phantoms": nph, "shortfalls": shortfalls})
    else:
        rec.count("accounting_checked:no_style")
        if len(lst) != old["max_cards"]:
            return bad("total_records_differ_from_stratum_bound", {"records": len(lst), "max_cards": old["max_cards"]})
        for cid, con in contests.items():
            if con.cards != old["max_cards"]:
                return bad("contest_bound_not_set_to_stratum_bound", {"contest": cid, "cards": con.cards})
        if nph > old["max_cards"] - n0:
            return bad("more_phantoms_than_the_largest_shortfall", {"phantoms": nph})


def install(rec):
    from shangrla.core.Audit import CVR
    contracts.wrap(CVR, "make_phantoms", rec, post=post_phantoms, pre=pre_phantoms)


def plan(tier, seed):
    shards = 16
    shards_ = [{"n": N_CASES[tier] // shards, "shard": i} for i in range(shards)]
    # plus the repository's own test-suite run with this check's contracts armed (DESIGN 6.4)
    return shards_ + [{"kind": "suite", "shard": 99}]


def run_shard(spec, rec):
    if spec.get("kind") == "suite":
        from vlib import suite
        suite.run_suite("checks.c08", rec)
        return
    rng = random.Random(f"c08-{spec['seed']}-{spec['shard']}")
    for i in range(spec["n"]):
        es = E.gen_spec(rng, n_contests=rng.choice((1, 2, 3, 3, 4)))
        # per-contest shortfalls in every order (a zero shortfall after a positive one, equal shortfalls, ...)
        if es["use_style"] and rng.random() < 0.6:
            for cid, con in es["contests"].items():
                n = sum(1 for cd in es["cards"] if cid in cd["votes"])
                con["cards"] = None if rng.random() < 0.1 else n + rng.choice((0, 0, 1, 2, 3, 5))
            es["max_cards"] = max(len(es["cards"]), max((c["cards"] or 0) for c in es["contests"].values())) + rng.choice((0, 2))
        run_case(es, rec)


def run_case(es, rec):
    rec.current_case = es
    ok, sim = rec.guard("c08.setup", lambda: E.Sim(es).setup())
    if not ok:
        rec.case(es, nontrivial=False, sample=brief(es))
        return
    CVR = sim.L["CVR"]
    lowered = 0
    if es.get("audit_max_cards") is not None and es["audit_max_cards"] != es["max_cards"]:
        rec.count("audit_wide_max_cards_differs_from_stratum_bound")
    # the same call again on the caller's own list (a notebook cell re-run, a revised bound): the contract checks the
    # accounting and the uniqueness of identifiers again - nothing of the first call may have leaked into the input
    if len(sim.real_list) <= len(es["cards"]) + 0 or True:
        tp, pool = es["phantom_pool"]
        bounds_before = {cid: con.cards for cid, con in sim.contests.items()}
        stratum = next(iter(sim.audit.strata.values()))
        max_before = stratum.max_cards
        stratum.max_cards = max_before + 2          # the bound on cards was revised upwards in the meantime
        if sim.use_style:
            for con in sim.contests.values():
                con.cards = con.cards + 2
        contests2 = dict(sim.contests)
        if sim.use_style and len(es["cards"]) % 3 == 0:
            # a contest of the jurisdiction that is on none of this stratum's cards: its bound here is 0 (a bound, not
            # "unspecified"), so no record may list it
            ghost = copy.copy(next(iter(sim.contests.values())))
            ghost.id = ghost.name = "contest-not-in-this-stratum"
            ghost.cards = 0
            contests2[ghost.id] = ghost
            rec.count("contest_with_card_bound_zero")
        if len(es["cards"]) % 4 == 1:
            # the caller keeps its contests under other handles than their identifiers (contest names, say)
            contests2 = {f"name of {k_}": v_ for k_, v_ in contests2.items()}
            rec.count("contests_dict_keyed_by_something_other_than_the_identifier")
        ok, again = rec.guard("c08.call:make_phantoms:second_call", CVR.make_phantoms, audit=sim.audit, contests=contests2,
                              cvr_list=sim.real_list, prefix=es.get("phantom_prefix", "phantom-1-"), tally_pool=tp, pool=pool)
        if not ok:
            return
        rec.count("second_call_on_same_input_list")
        if len(sim.real_list) >= 2 and len(es["cards"]) % 5 == 2:
            # a record of the input list happens to carry an identifier of the form prefix + number (a card batch literally
            # named like that, or one earlier phantom kept in the list): the new phantoms' identifiers are unique all the same
            pf = es.get("phantom_prefix", "phantom-1-")
            c0 = copy.copy(sim.real_list[0])
            c0.id = pf + "2"
            ok, _ = rec.guard("c08.call:make_phantoms:input_id_of_phantom_form", CVR.make_phantoms, audit=sim.audit, contests=dict(sim.contests),
                              cvr_list=[c0] + list(sim.real_list[1:]), prefix=pf, tally_pool=tp, pool=pool)
            if not ok:
                return
        # ... and on a list that already holds phantom records (its own earlier output, loaded back): the bound has been
        # revised upwards again, the new phantoms get a fresh prefix; the accounting is over ALL records
        stratum.max_cards = max_before + 4
        if sim.use_style:
            for con in sim.contests.values():
                con.cards = con.cards + 2
        if any(c.phantom for c in sim.cvr_list) and not sim.use_style:
            # (without style the documented count is max_cards - len(cvr_list), whatever the list holds; with style the
            # function is documented for "the reported CVRs" and counts real records only: not exercised, see ASSUMPTIONS)
            ok, third = rec.guard("c08.call:make_phantoms:input_with_phantoms", CVR.make_phantoms, audit=sim.audit,
                                  contests=sim.contests, cvr_list=list(sim.cvr_list), prefix="phantom-9-", tally_pool=tp, pool=pool)
            if not ok:
                return
            rec.count("call_on_a_list_that_already_holds_phantoms:no_style")
        stratum.max_cards = max_before
        for cid, con in sim.contests.items():
            con.cards = bounds_before[cid]
    with np.errstate(all="ignore"):
        for cid, con in sim.contests.items():
            sc = es["contests"][cid]
            idx = sim.audited_indices(cid)
            for name, a in con.assertions.items():
                rec.count(f"assorter:{sc['kind']}")
                if idx and sc["audit_type"] in ("CARD_COMPARISON", "ONEAUDIT"):
                    # the same worst case by the route an audit takes: every card of the population unfindable, data built by
                    # mvrs_to_data - each datum must be what the overstatement assorter gives that (phantom, CVR) pair
                    cvs = [sim.cvr_list[i] for i in idx]
                    phs = [CVR(id=cv_.id, votes={}, phantom=True) for cv_ in cvs]
                    okd, du = rec.guard(f"c08.call:mvrs_to_data:{sc['kind']}", a.mvrs_to_data, phs, cvs, True)
                    if not okd:
                        return
                    dd = [float(z) for z in du[0]]
                    direct = [float(a.overstatement_assorter(p_, c_, sim.use_style)) for p_, c_ in zip(phs, cvs)]
                    rec.count("worstcase_data_route_checked")
                    if len(dd) != len(direct) or any(x_ > y_ + 1e-12 for x_, y_ in zip(dd, direct)):
                        j_ = next((q for q, (x_, y_) in enumerate(zip(dd, direct)) if x_ > y_ + 1e-12), None)
                        rec.violation("c08.worstcase", f"{sc['kind']}:unfindable_card_scored_higher_by_the_data_route_than_by_the_assorter",
                                      {"contest": cid, "assertion": name, "n_data": len(dd), "n_cards": len(direct),
                                       "datum": None if j_ is None else dd[j_], "assorter_value": None if j_ is None else direct[j_],
                                       "cvr": None if j_ is None else cvs[j_].votes, "use_style": sim.use_style})
                        return
                for i in idx:
                    cv = sim.cvr_list[i]
                    mv = sim.mvr_for(i)
                    ph = CVR(id=cv.id, votes={}, phantom=True)
                    if i % 7 == 3:
                        # an unfindable card recorded through the RAIRE route (a line with no ranking, loaded as phantom)
                        ok0, rr = rec.guard("c08.call:from_raire", CVR.from_raire,
                                            [["1"], ["Contest", cid, "1", "x", "winner", "x"], [cid, cv.id]], phantom=True)
                        if not ok0:
                            return
                        ph = rr[0][0]
                        rec.count("phantom_manual_record_built_by_from_raire")
                    ok1, b_real = rec.guard(f"c08.call:overstatement_assorter:{sc['kind']}", a.overstatement_assorter, mv, cv, sim.use_style)
                    ok2, b_ph = rec.guard(f"c08.call:overstatement_assorter:{sc['kind']}", a.overstatement_assorter, ph, cv, sim.use_style)
                    if not (ok1 and ok2):
                        return
                    rec.count("worstcase_pairs")
                    if b_ph > b_real + 1e-12:
                        rec.violation("c08.worstcase", f"{sc['kind']}:phantom_mvr_raises_overstatement_assorter",
                                      {"contest": cid, "assertion": name, "card": cv.id, "B_phantom": b_ph, "B_real": b_real,
                                       "mvr": mv.votes, "cvr": cv.votes, "cvr_phantom": cv.phantom})
                        return
                    # phantom MVR scored exactly 0: B_real - B_phantom = A_real / (u (2 - v/u)) = A_real / (2u - v)
                    A = sim.ref_A(i, cid, name)
                    u, v = a.assorter.upper_bound, a.margin
                    if not math.isclose(b_real - b_ph, A / (2 * u - v), rel_tol=1e-9, abs_tol=1e-12):
                        rec.violation("c08.worstcase", f"{sc['kind']}:phantom_mvr_not_scored_zero",
                                      {"contest": cid, "assertion": name, "card": cv.id, "B_real-B_phantom": b_real - b_ph,
                                       "A/(2u-v)": A / (2 * u - v), "A_real": A})
                        return
                    if b_ph < b_real - 1e-12:
                        lowered += 1
                        rec.count("phantom_mvr_strictly_lower")
                    if cv.phantom and not (cv.pool and a.assorter.tally_pool_means is not None):
                        rec.count("phantom_cvr_pairs")
                        cvr_side = u * (1 - b_real * (2 - v / u)) + A
                        if not math.isclose(cvr_side, 0.5, rel_tol=1e-9, abs_tol=1e-12):
                            rec.violation("c08.phantomcvr", f"{sc['kind']}:unpooled_phantom_cvr_not_scored_half",
                                          {"contest": cid, "assertion": name, "card": cv.id, "cvr_side_score": cvr_side})
                            return
    # the sampled phantom cards get phantom manual records (which is how "cannot be found" enters the scoring above): the
    # CVR-driven lookup must return one for exactly the sampled records whose phantom flag is set, whatever their prefix
    import pandas as pd
    from shangrla.formats.Dominion import Dominion
    keys = sorted({tuple(cd["id"].split("-")[:2]) for cd in es["cards"]})
    man = pd.DataFrame({"Tray #": [1] * len(keys), "Tabulator Number": [k[0] for k in keys], "Batch Number": [k[1] for k in keys],
                        "Total Ballots": [sum(1 for cd in es["cards"] if tuple(cd["id"].split("-")[:2]) == k) for k in keys],
                        "VBMCart.Cart number": [1] * len(keys)})
    n_all = len(sim.cvr_list)
    pick = [i for i in range(n_all) if sim.cvr_list[i].phantom or i % 3 == 0]
    ok, res = rec.guard("c08.call:Dominion.sample_from_cvrs", Dominion.sample_from_cvrs, sim.cvr_list, man, np.array(pick))
    if not ok:
        return
    want_ph = sorted(sim.cvr_list[i].id for i in pick if sim.cvr_list[i].phantom)
    got_ph = sorted(m.id for m in res[3])
    rec.count("phantom_mvrs_for_sampled_phantom_cards_checked")
    if want_ph and es.get("phantom_prefix", "phantom-1-") != "phantom-1-":
        rec.count("phantom_mvrs_for_sampled_phantom_cards_checked:another_prefix")
    if got_ph != want_ph or any((not m.phantom) or m.votes for m in res[3]):
        rec.violation("c08.worstcase", "sampled_phantom_cards_do_not_get_phantom_manual_records",
                      {"got": got_ph[:6], "want": want_ph[:6], "prefix": es.get("phantom_prefix")})
        return
    # the manifest-driven lookup: the same manifest prepared for a bound that needs a phantom batch; every sampled number
    # that falls into the phantom batch, and no other, gets a phantom manual record - in whatever order the numbers come
    total = int(man["Total Ballots"].sum())
    extra = 1 + len(es["cards"]) % 4
    # (the manifest may list cards for which there is no CVR: the phantom batch makes up manifest -> bound, not CVRs -> bound)
    n_cvrs_m = max(0, total - len(es["cards"]) % 3)
    if n_cvrs_m < total:
        rec.count("manifests_listing_more_cards_than_there_are_cvrs")
    ok, pm = rec.guard("c08.call:Dominion.prep_manifest", Dominion.prep_manifest, man.copy(), total + extra, n_cvrs_m)
    if not ok:
        return
    if int(pm[2]) != extra or int(pm[0]["cum_cards"].iloc[-1]) != total + extra:
        rec.violation("c08.accounting", "manifest_plus_phantom_batch_does_not_add_up_to_the_card_bound",
                      {"manifest_cards": total, "bound": total + extra, "n_cvrs": n_cvrs_m, "phantoms": int(pm[2]),
                       "last_cumulative_count": int(pm[0]["cum_cards"].iloc[-1])})
        return
    # the CVR-driven lookup again, now against the PREPARED manifest (which lists a batch named "phantom" / 1): what makes
    # a sampled record a phantom is its flag, not whether some manifest row happens to match its identifier
    ok, res2 = rec.guard("c08.call:Dominion.sample_from_cvrs:prepared_manifest", Dominion.sample_from_cvrs, sim.cvr_list, pm[0], np.array(pick))
    if not ok:
        return
    rec.count("phantom_mvrs_for_sampled_phantom_cards_checked:prepared_manifest")
    if sorted(m.id for m in res2[3]) != want_ph or any((not m.phantom) or m.votes for m in res2[3]):
        rec.violation("c08.worstcase", "sampled_phantom_cards_do_not_get_phantom_manual_records:prepared_manifest",
                      {"got": sorted(m.id for m in res2[3])[:6], "want": want_ph[:6], "prefix": es.get("phantom_prefix")})
        return
    nums = list(range(1, total + extra + 1))
    prng2 = __import__("random").Random(total * 31 + extra)
    prng2.shuffle(nums)
    nums = nums[: 12] + [n for n in nums[12:] if n > total]       # a dozen cards in random order plus every phantom
    prng2.shuffle(nums)
    ok, lk = rec.guard("c08.call:Dominion.sample_from_manifest", Dominion.sample_from_manifest, pm[0], nums)
    if not ok:
        return
    want_ids = sorted(f"phantom-1-{n - total}" for n in nums if n > total)
    got_ids = sorted(m.id for m in lk[2])
    rec.count("phantom_mvrs_for_manifest_lookups_checked")
    if got_ids != want_ids or any((not m.phantom) or m.votes for m in lk[2]):
        rec.violation("c08.worstcase", "sampled_phantom_cards_do_not_get_phantom_manual_records:manifest_lookup",
                      {"got": got_ids[:8], "want": want_ids[:8], "sample": nums})
        return
    # the same through the other vendor's lookup (Hart numbers cards from 0): every sampled number at or beyond the listed
    # cards, and no other, gets a phantom manual record
    from shangrla.formats.Hart import Hart
    hman = pd.DataFrame({"Container": [f"box {j}" for j in range(len(keys))], "Tabulator": [str(k[0]) for k in keys],
                         "Batch Name": [str(k[1]) for k in keys], "Number of Ballots": list(man["Total Ballots"])})
    ok, hp = rec.guard("c08.call:Hart.prep_manifest", Hart.prep_manifest, hman, total + extra, n_cvrs_m)
    if not ok:
        return
    hnums = [n - 1 for n in nums]
    ok, hl = rec.guard("c08.call:Hart.sample_from_manifest", Hart.sample_from_manifest, hp[0], hnums)
    if not ok:
        return
    want_n = sum(1 for n in hnums if n >= total)
    rec.count("phantom_mvrs_for_manifest_lookups_checked:hart")
    if len(hl[2]) != want_n or len({m.id for m in hl[2]}) != want_n or any((not m.phantom) or m.votes for m in hl[2]):
        rec.violation("c08.worstcase", "sampled_phantom_cards_do_not_get_phantom_manual_records:hart_manifest_lookup",
                      {"got": sorted(m.id for m in hl[2])[:8], "phantom_numbers_sampled": sorted(n for n in hnums if n >= total), "listed_cards": total})
        return
    # ... and the CVR-driven lookup of that vendor: a list holding two batches of phantom records (make_phantoms was run for
    # two groups, prefixes phantom-1- and phantom-2-, so card numbers repeat across batches) and a few ordinary records;
    # every sampled phantom record gets its own phantom manual record
    hcv = [CVR(id=f"{hman['Batch Name'][0]}_{k_}", votes={"x": {"a": 1}}) for k_ in range(1, 4)]
    hcv += [CVR(id=f"phantom-{g_}-{k_}", votes={}, phantom=True) for g_ in (1, 2) for k_ in range(1, 2 + extra)]
    hp_ = list(range(len(hcv)))
    prng2.shuffle(hp_)
    ok, hc = rec.guard("c08.call:Hart.sample_from_cvrs", Hart.sample_from_cvrs, hcv, hman, np.array(hp_))
    if not ok:
        return
    rec.count("phantom_mvrs_for_sampled_phantom_cards_checked:hart_two_phantom_batches")
    want_h = sorted(c_.id for c_ in hcv if c_.phantom)
    got_h = sorted(m.id for m in hc[3])
    if got_h != want_h or any((not m.phantom) or m.votes for m in hc[3]):
        rec.violation("c08.worstcase", "sampled_phantom_cards_do_not_get_phantom_manual_records:hart_cvr_lookup",
                      {"got": got_h[:8], "want": want_h[:8]})
        return
    # pooled phantom CVRs enter the audit only through their batch's mean: each must contribute exactly 1/2 to the batch
    # total (reference: sum of reference assorter values of the batch's real CVRs + 1/2 per phantom)
    for cid, con in sim.contests.items():
        sc = es["contests"][cid]
        for name, a in con.assertions.items():
            means = a.assorter.tally_pool_means
            if means is None:
                continue
            for p, m in means.items():
                members = [c for c in sim.cvr_list if c.pool and c.tally_pool == p and (not sim.use_style or c.has_contest(cid))]
                n_ph = sum(1 for c in members if c.phantom)
                if not members or not n_ph:
                    continue
                tot = sum(0.5 if c.phantom else E.ref_assort(sc, sim.desc[cid][name], c.votes.get(cid)) for c in members)
                rec.count("pool_means_with_phantoms_checked")
                if sc["kind"] == "supermajority" and sc["share"] != 0.5:
                    rec.count("pool_means_with_phantoms_checked:assorter_bound_not_1")
                if not math.isclose(float(m), tot / len(members), rel_tol=1e-9, abs_tol=1e-12):
                    rec.violation("c08.phantomcvr", f"{sc['kind']}:pooled_phantom_cvr_not_counted_as_half_in_batch_mean",
                                  {"contest": cid, "assertion": name, "pool": p, "batch_mean": float(m), "expected": tot / len(members),
                                   "members": len(members), "phantoms": n_ph, "assorter_upper_bound": a.assorter.upper_bound})
                    return
    # phantom CVRs with arbitrary contents ("all CVR contents"): whatever votes a phantom record carries, and whatever its
    # pool label, it is scored 1/2 unless it is pooled AND batch means are in force
    import random as _r
    prng = _r.Random(len(es["cards"]) * 1009 + len(es["contests"]))
    with np.errstate(all="ignore"):
        for cid, con in sim.contests.items():
            sc = es["contests"][cid]
            for name, a in con.assertions.items():
                means_on = a.assorter.tally_pool_means is not None
                for _ in range(3):
                    votes = E.gen_ballot(prng, sc)
                    pooled = prng.random() < 0.5
                    pc = CVR(id="phantom-1-x", votes={cid: votes}, phantom=True, pool=pooled, tally_pool=prng.choice(("zz-1", None)))
                    if pooled and means_on:
                        continue
                    mv = CVR(id="phantom-1-x", votes={cid: E.gen_ballot(prng, sc)})
                    ok, b = rec.guard(f"c08.call:overstatement_assorter:{sc['kind']}", a.overstatement_assorter, mv, pc, sim.use_style)
                    if not ok:
                        return
                    A = E.ref_assort(sc, sim.desc[cid][name], mv.votes[cid])
                    u, v = a.assorter.upper_bound, a.margin
                    cvr_side = u * (1 - b * (2 - v / u)) + A
                    rec.count("phantom_cvr_with_votes_pairs")
                    if not math.isclose(cvr_side, 0.5, rel_tol=1e-9, abs_tol=1e-12):
                        rec.violation("c08.phantomcvr", f"{sc['kind']}:phantom_cvr_with_votes_not_scored_half",
                                      {"contest": cid, "assertion": name, "cvr_votes": votes, "pool": pooled, "means_in_force": means_on,
                                       "cvr_side_score": cvr_side})
                        return
    multi = sum(1 for cid, con in sim.contests.items()
                if (con.cards or 0) > sum(1 for cd in es["cards"] if cid in cd["votes"])) >= 2
    rec.case(es, nontrivial=(multi or lowered > 0), sample=brief(es))


def brief(es):
    return {"use_style": es["use_style"], "max_cards": es["max_cards"], "n_cards": len(es["cards"]),
            "bounds": {k: v["cards"] for k, v in es["contests"].items()},
            "listing": {k: sum(1 for cd in es["cards"] if k in cd["votes"]) for k in es["contests"]},
            "phantom_pool": es["phantom_pool"]}
