"""C09 — the audit completes only when every assertion of every contest meets its risk limit.

Runtime contracts on the real functions, armed while simulated audits are driven through several set_p_values calls:
  c09.pvalues    Assertion.set_p_values (pre: an independent deep copy of every assertion's configured test and its
                 `proved` flag; post): for each assertion the recorded p_value / p_history are exactly what the copied
                 test returns on mvrs_to_data(...) with the returned u installed; contest.p_values / proved / max_p and the
                 returned value are the stated maxima; proved_after == (p <= the contest's own risk limit) or proved_before.
  c09.status     Audit.summarize_status (post): result == every assertion of every contest has p <= that contest's limit.
  c09.reset      Assertion.reset_p_values (post): p = 1, empty history, unproved, contest dictionaries and max_p reset.
  c09.params     check_audit_parameters is silent on every generated configuration and raises on each injected invalid one.
"""
import contextlib
import copy
import io
import math
import random

import numpy as np

from checks.c06 import gen_sizes
from vlib import contracts
from vlib import election as E

RULE = ("simulated audits with 1-4 contests of different risk limits, audit types and social choice functions; each case "
        "calls set_p_values 2-3 times (same cards re-read, grown sample, after reset; stale test bounds, random_order false) "
        "and summarize_status after each; "
        "non-trivial = at least two contests with different risk limits and both confirmed and unconfirmed assertions "
        "occurred in the case; distinct = hash of the spec")
REQUIRED = ["contract:Assertion.set_p_values", "contract:Audit.summarize_status", "contract:Assertion.reset_p_values",
            "assertions_recomputed", "status:complete", "status:incomplete", "mixed_confirmed_and_unconfirmed",
            "p_equal_to_limit_confirmed", "second_call_same_length_different_data", "contest_meets_neighbours_limit_not_own",
            "params_silent", "params_rejected", "proved_sticky_observed",
            "test_objects_hold_another_bound_before_call", "tests_configured_with_random_order_false",
            "mixed_audit_polling_contest_among_comparison_contests", "status_asked_for_copied_contests_with_other_limits",
            "reset_from_a_state_with_p_values_but_empty_histories",
            "status_asked_with_a_limit_within_one_ulp_of_the_measured_risk", "sampled_cards_with_the_contest_outside_its_own_sample_seen",
            "status_asked_after_p_values_changed_without_a_new_evaluation",
            "sample_handed_over_in_another_order_than_sample_number_order",
            "assertion_set_changed_between_two_evaluations", "status_asked_with_a_contest_that_has_no_assertions"]
ASSUMPTIONS = ["samples have at least one observation per assertion", "summarize_status prints: stdout is swallowed, not parsed"]
N_CASES = {"quick": 9600, "thorough": 80000}


def pre_set_p(a, k):
    contests = k.get("contests", a[1] if len(a) > 1 else None)
    return {(c, n): (copy.deepcopy(asn.test), bool(asn.proved)) for c, con in contests.items() for n, asn in con.assertions.items()}


def same_arr(x, y):
    x, y = np.asarray(x, dtype=float), np.asarray(y, dtype=float)
    return x.shape == y.shape and bool(np.all((x == y) | (np.isnan(x) & np.isnan(y))))


def post_set_p(rec, result, a, k, old):
    contests = k.get("contests", a[1] if len(a) > 1 else None)
    mvr = k.get("mvr_sample", a[2] if len(a) > 2 else None)
    cvr = k.get("cvr_sample", a[3] if len(a) > 3 else None)
    case = rec.current_case
    overall = 0
    for c, con in contests.items():
        cmax = 0
        for n, asn in con.assertions.items():
            clone, proved_before = old[(c, n)]
            d, u = asn.mvrs_to_data(mvr, cvr)
            clone.u = u
            if con.audit_type != "POLLING" and con.use_style and cvr is not None:
                # "that assertion's data": the cards of the contest's own sample, decided on the sample numbers as they
                # are (256-bit integers), counted here independently of the method that prepared the data
                own = sum(1 for cv in cvr if cv.has_contest(c) and cv.sample_num <= con.sample_threshold)
                rec.count("data_sizes_compared_with_the_contests_own_sample")
                if own < sum(1 for cv in cvr if cv.has_contest(c)):
                    rec.count("sampled_cards_with_the_contest_outside_its_own_sample_seen")
                if own != len(d):
                    rec.violation("c09.pvalues", "data_is_not_the_contests_own_sample",
                                  {"contest": c, "assertion": n, "data_size": len(d), "own_sample": own}, case)
                    return
                # ... and each datum is the overstatement assorter's value for that (manual record, CVR) pair under the
                # contest's style flag (the pair-level conventions themselves are C03's and C08's subject)
                with np.errstate(all="ignore"):
                    indep = [float(asn.overstatement_assorter(mv_, cv_, True)) for mv_, cv_ in zip(mvr, cvr)
                             if cv_.has_contest(c) and cv_.sample_num <= con.sample_threshold]
                rec.count("data_values_compared_with_pairwise_overstatement_assorter")
                if any(not math.isclose(float(x_), y_, rel_tol=1e-12, abs_tol=1e-15) for x_, y_ in zip(d, indep)):
                    j_ = next(q for q, (x_, y_) in enumerate(zip(d, indep)) if not math.isclose(float(x_), y_, rel_tol=1e-12, abs_tol=1e-15))
                    rec.violation("c09.pvalues", "datum_is_not_the_overstatement_assorter_of_its_pair",
                                  {"contest": c, "assertion": n, "position": j_, "datum": float(d[j_]), "pairwise": indep[j_]}, case)
                    return
            with np.errstate(all="ignore"):
                try:
                    p, h = clone.test(d)
                except Exception as e:  # the real call succeeded on the same data: the copy must too
                    rec.count("clone_raised")
                    continue
            rec.count("assertions_recomputed")
            if not (asn.p_value == p or (isinstance(p, float) and math.isnan(p) and math.isnan(asn.p_value))
                    or math.isclose(asn.p_value, p, rel_tol=1e-15, abs_tol=0)):
                rec.violation("c09.pvalues", "recorded_p_value_is_not_what_the_test_returns",
                              {"contest": c, "assertion": n, "recorded": asn.p_value, "test_returns": p, "n": len(d)}, case)
                return
            if not same_arr(asn.p_history, h):
                rec.violation("c09.pvalues", "recorded_history_is_not_what_the_test_returns",
                              {"contest": c, "assertion": n, "len_recorded": len(asn.p_history), "len_test": len(h)}, case)
                return
            want_proved = (p <= con.risk_limit) or proved_before
            if proved_before and not (p <= con.risk_limit):
                rec.count("proved_sticky_observed")
            if p == con.risk_limit:
                rec.count("p_equal_to_limit_confirmed")
            if bool(asn.proved) != bool(want_proved):
                rec.violation("c09.pvalues", "proved_flag_wrong", {"contest": c, "assertion": n, "p": p, "limit": con.risk_limit,
                                                                    "proved_before": proved_before, "proved": asn.proved}, case)
                return
            if con.p_values.get(n) != asn.p_value or bool(con.proved.get(n)) != bool(asn.proved):
                rec.violation("c09.pvalues", "contest_dictionaries_disagree_with_assertions", {"contest": c, "assertion": n}, case)
                return
            cmax = max(cmax, asn.p_value)
        if set(con.p_values) != set(con.assertions) or set(con.proved) != set(con.assertions):
            rec.violation("c09.pvalues", "contest_dictionaries_miss_an_assertion", {"contest": c}, case)
            return
        if con.max_p != cmax:
            rec.violation("c09.pvalues", "contest_max_p_is_not_the_largest_p_value", {"contest": c, "max_p": con.max_p, "largest": cmax}, case)
            return
        overall = max(overall, cmax)
    if result != overall:
        rec.violation("c09.pvalues", "returned_value_is_not_the_largest_over_contests", {"returned": result, "largest": overall}, case)


def post_status(rec, result, a, k, old):
    contests = k.get("contests", a[1] if len(a) > 1 else None)
    want = all(asn.p_value <= contests[c].risk_limit for c, con in contests.items() for asn in con.assertions.values())
    rec.count("status:complete" if want else "status:incomplete")
    flags = [asn.p_value <= con.risk_limit for con in contests.values() for asn in con.assertions.values()]
    if any(flags) and not all(flags):
        rec.count("mixed_confirmed_and_unconfirmed")
    lims = sorted(set(con.risk_limit for con in contests.values()))
    if len(lims) >= 2:
        for con in contests.values():
            mp = max((asn.p_value for asn in con.assertions.values()), default=0.0)
            if mp > con.risk_limit and any(mp <= l for l in lims if l != con.risk_limit):
                rec.count("contest_meets_neighbours_limit_not_own")
    if bool(result) != want:
        det = {c: {"limit": con.risk_limit, "p": {n: asn.p_value for n, asn in con.assertions.items()}} for c, con in contests.items()}
        rec.violation("c09.status", "complete_although_an_assertion_exceeds_its_limit" if result else "incomplete_although_all_assertions_meet_their_limits",
                      {"reported_complete": bool(result), "contests": det}, rec.current_case)


def post_reset(rec, result, a, k, old):
    contests = k.get("contests", a[1] if len(a) > 1 else None)
    for c, con in contests.items():
        for n, asn in con.assertions.items():
            if asn.p_value != 1 or len(asn.p_history) != 0 or asn.proved is not False:
                rec.violation("c09.reset", "assertion_not_reset", {"contest": c, "assertion": n, "p": asn.p_value,
                                                                   "len_history": len(asn.p_history), "proved": asn.proved}, rec.current_case)
                return
        if con.max_p != 1 or any(v != 1 for v in con.p_values.values()) or any(con.proved.values()) \
                or set(con.p_values) != set(con.assertions) or set(con.proved) != set(con.assertions):
            rec.violation("c09.reset", "contest_not_reset", {"contest": c, "max_p": con.max_p}, rec.current_case)
            return


def install(rec):
    from shangrla.core.Audit import Assertion, Audit
    contracts.wrap(Assertion, "set_p_values", rec, post=post_set_p, pre=pre_set_p)
    contracts.wrap(Audit, "summarize_status", rec, post=post_status)
    contracts.wrap(Assertion, "reset_p_values", rec, post=post_reset)


def plan(tier, seed):
    shards = 16
    shards_ = [{"n": N_CASES[tier] // shards, "shard": i} for i in range(shards)]
    # plus the repository's own test-suite run with this check's contracts armed (DESIGN 6.4)
    return shards_ + [{"kind": "suite", "shard": 99}]


def exact_limit_spec(rng):
    """Polling, Kaplan-Markov with g = 0 on dyadic data: p = 2^-k exactly equals the risk limit 2^-k."""
    k = rng.choice((1, 2, 3))
    n = rng.randint(k + 1, 10)
    cards = [{"id": f"1-1-{i + 1}", "votes": {"con1": {"1a": 1}}, "tally_pool": "1-1", "pool": False} for i in range(n)]
    return {"use_style": False, "max_cards": n,
            "contests": {"con1": {"kind": "plurality", "candidates": ["1a", "1b"], "winner": ["1a"], "n_winners": 1, "share": None,
                                  "risk_limit": 2.0 ** -k, "audit_type": "POLLING", "test": "kaplan_markov", "estim": None,
                                  "bet": None, "test_kwargs": {}, "cards": n, "g": 0}},
            "cards": cards, "phantom_pool": [None, False], "mvrs": {}, "sample_nums": {"kind": "explicit", "nums": None},
            "sn_mode": "list_order", "_exact_k": k}


def run_shard(spec, rec):
    if spec.get("kind") == "suite":
        from vlib import suite
        suite.run_suite("checks.c09", rec)
        return
    rng = random.Random(f"c09-{spec['seed']}-{spec['shard']}")
    for i in range(spec["n"]):
        if i % 20 == 19:
            es = exact_limit_spec(rng)
        else:
            es = E.gen_spec(rng, n_contests=rng.choice((1, 2, 3, 4)), error_rate=rng.choice((0, 0, 0.05, 0.3)),
                            n_cards=rng.choice((8, 12, 20, 40, 60)), phantom_rate=rng.choice((0, 0, 0.05)))
        es["_seed"] = rng.randrange(10 ** 9)
        run_case(es, rec)


def run_case(es, rec):
    rec.current_case = es
    ok, sim = rec.guard("c09.setup", lambda: E.Sim(es).setup())
    if not ok:
        rec.case(es, nontrivial=False)
        return
    if "_exact_k" in es:
        for con in sim.contests.values():
            con.g = 0
            for asn in con.assertions.values():
                asn.test.g = 0
                asn.test.kwargs["g"] = 0
    A, audit = sim.L["Assertion"], sim.audit
    rng = random.Random(es.get("_seed", 0))
    if rng.random() < 0.2:
        # tests configured for data that are NOT in random order (the overall p-value is then the last history entry, not
        # the smallest): the recorded value must still be what the configured test returns
        for con in sim.contests.values():
            for asn in con.assertions.values():
                # (the finite-population SPRT refuses data that are not in random order, as documented)
                if getattr(asn.test.test, "__name__", "") != "wald_sprt":
                    asn.test.random_order = False
        rec.count("tests_configured_with_random_order_false")
    sink = io.StringIO()
    # parameter sanity
    with contextlib.redirect_stdout(sink):
        ok, _ = rec.guard("c09.call:check_audit_parameters", audit.check_audit_parameters, sim.contests)
    if ok:
        rec.count("params_silent")
    first = next(iter(sim.contests.values()))
    for attr, badval in (("risk_limit", 0), ("risk_limit", 0.6), ("winner", ["nobody"]), ("n_winners", len(first.candidates) + 1)):
        keep = getattr(first, attr)
        setattr(first, attr, badval)
        try:
            audit.check_audit_parameters(sim.contests)
            rec.violation("c09.params", f"accepts_invalid_{attr}", {"value": badval})
        except AssertionError:
            rec.count("params_rejected")
        finally:
            setattr(first, attr, keep)
    from shangrla.core.Audit import Contest as _C
    for con in sim.contests.values():
        if con.choice_function == _C.SOCIAL_CHOICE_FUNCTION.IRV:
            for attr, badval in (("assertion_file", None), ("n_winners", 2)):
                keep, keepw = getattr(con, attr), con.winner
                setattr(con, attr, badval)
                if attr == "n_winners":
                    con.winner = list(con.candidates[:2])
                try:
                    audit.check_audit_parameters(sim.contests)
                    rec.violation("c09.params", f"accepts_invalid_irv_{attr}", {"value": badval})
                except AssertionError:
                    rec.count("params_rejected")
                finally:
                    setattr(con, attr, keep)
                    con.winner = keepw
            break
    if sim.use_style and len(sim.contests) >= 2 and rng.random() < 0.25:
        # a mixed audit: one contest is audited by polling (its data are EVERY sampled manual record, whatever the CVRs
        # list) while the others are compared card by card in the same call; its population is the whole stratum
        cid = rng.choice(sorted(sim.contests))
        con = sim.contests[cid]
        con.audit_type = sim.L["Audit"].AUDIT_TYPE.POLLING
        con.cards = len(sim.cvr_list)
        for asn in con.assertions.values():
            asn.test.N = len(sim.cvr_list)
            asn.test.u = asn.assorter.upper_bound
        rec.count("mixed_audit_polling_contest_among_comparison_contests")
    sim.assign_sample_nums()
    lims = set(c["risk_limit"] for c in es["contests"].values())
    seen = set()
    with np.errstate(all="ignore"), contextlib.redirect_stdout(sink):
        rounds = rng.choice((2, 3))
        prev_len = None
        for r in range(rounds):
            if "_exact_k" in es:
                sizes = {"con1": es["_exact_k"] + (0 if r else -1) if es["_exact_k"] > 1 or r else 1}
                sizes = {"con1": max(1, es["_exact_k"] - 1 + r)}
            else:
                sizes = gen_sizes(rng, sim, rng.choice(("ones", "random", "random", "all")))
            sim.set_sizes(sizes)
            ok, idx = rec.guard("c09.call:consistent_sampling", sim.draw)
            if not ok:
                return
            ok, ms = rec.guard("c09.call:samples", sim.samples, list(idx))
            if not ok:
                return
            m, c = ms
            if rng.random() < 0.3 and "_exact_k" not in es and len(m) > 2:
                # the sample handed over in retrieval order (by storage location, or with later rounds appended) rather than
                # in sample-number order: the pairs stay matched, and "that assertion's data" are still the contest's own cards
                perm = list(range(len(m)))
                rng.shuffle(perm)
                m, c = [m[i] for i in perm], [c[i] for i in perm]
                rec.count("sample_handed_over_in_another_order_than_sample_number_order")
            if rng.random() < 0.3:
                # the test objects hold a bound other than the one that applies now (objects first used under another
                # audit type, margins revised since, ...): the recorded p-value must still be what the configured test
                # returns on the assertion's data WITH the assertion's bound
                for con in sim.contests.values():
                    for asn in con.assertions.values():
                        asn.test.u = asn.test.u * rng.choice((1.25, 1.5, 2.0))
                rec.count("test_objects_hold_another_bound_before_call")
            ok, pmax = rec.guard("c09.call:set_p_values", A.set_p_values, sim.contests, m, c)
            if not ok:
                return
            ok, done = rec.guard("c09.call:summarize_status", audit.summarize_status, sim.contests)
            if not ok:
                return
            seen.add(bool(done))
            if rng.random() < 0.3:
                # the same audit looked at under other risk limits: shallow copies of the Contest objects (they share the
                # Assertion objects, whose back-reference still points to the original contest) with other limits
                lim2 = rng.choice((0.001, 0.01, 0.2, 0.5))
                c2 = {}
                for cid_, con_ in sim.contests.items():
                    cc = copy.copy(con_)
                    cc.risk_limit = lim2 if rng.random() < 0.7 else con_.risk_limit
                    mp = max((a_.p_value for a_ in con_.assertions.values()), default=1.0)
                    if rng.random() < 0.4 and 0 < mp < 1:
                        # a limit within one unit in the last place of the contest's measured risk: <= is exact
                        cc.risk_limit = rng.choice((math.nextafter(mp, 0.0), mp, math.nextafter(mp, 1.0)))
                        rec.count("status_asked_with_a_limit_within_one_ulp_of_the_measured_risk")
                    c2[cid_] = cc
                if rng.random() < 0.5:
                    # an uncontested race is part of the audit: a contest object with no assertions (nothing to confirm),
                    # with a limit of its own, somewhere in the list
                    ce = copy.copy(next(iter(sim.contests.values())))
                    ce.id = ce.name = "uncontested"
                    ce.assertions = {}
                    ce.risk_limit = rng.choice((0.0001, 0.01, 0.05))
                    items = list(c2.items())
                    items.insert(rng.randint(0, len(items)), ("uncontested", ce))
                    c2 = dict(items)
                    rec.count("status_asked_with_a_contest_that_has_no_assertions")
                rec.count("status_asked_for_copied_contests_with_other_limits")
                ok, _ = rec.guard("c09.call:summarize_status", audit.summarize_status, c2)
                if not ok:
                    return
            for con in sim.contests.values():
                for asn in con.assertions.values():
                    seen.add(("p_ok", asn.p_value <= con.risk_limit))
            # the same cards re-read with different manual records (same length, different data), no reset in between
            if rng.random() < 0.5:
                CVR = sim.L["CVR"]
                big = [con_ for con_ in sim.contests.values() if len(con_.assertions) >= 2]
                if big and rng.random() < 0.4:
                    # one assertion of a contest is dropped between the two evaluations (found redundant, or replaced
                    # under another name): the contest's risk is the largest p-value among the assertions it has NOW
                    con_ = rng.choice(big)
                    worst = max(con_.assertions, key=lambda n_: (con_.assertions[n_].p_value, n_))
                    gone = con_.assertions.pop(worst)
                    if rng.random() < 0.5:
                        con_.assertions[f"{worst} (renamed)"] = gone
                    rec.count("assertion_set_changed_between_two_evaluations")
                m2 = [CVR(id=x.id, votes={}, phantom=True) if rng.random() < 0.7 else x for x in m]
                rec.count("second_call_same_length_different_data")
                ok, _ = rec.guard("c09.call:set_p_values", A.set_p_values, sim.contests, m2, c)
                if not ok:
                    return
                ok, done = rec.guard("c09.call:summarize_status", audit.summarize_status, sim.contests)
            if rng.random() < 0.25:
                # the assertions' p-values changed since set_p_values last ran (assertions rebuilt after the candidate list
                # was amended: new objects start at 1; or values restored from a saved log): the status is about the
                # p-values the assertions hold NOW, not about anything recorded at the last evaluation
                cid_ = rng.choice(sorted(sim.contests))
                con_ = sim.contests[cid_]
                keep = {n_: a_.p_value for n_, a_ in con_.assertions.items()}
                for a_ in con_.assertions.values():
                    a_.p_value = rng.choice((1.0, 1.0, con_.risk_limit / 2, min(1.0, con_.risk_limit * 2)))
                rec.count("status_asked_after_p_values_changed_without_a_new_evaluation")
                ok, _ = rec.guard("c09.call:summarize_status", audit.summarize_status, sim.contests)
                for n_, a_ in con_.assertions.items():
                    a_.p_value = keep[n_]
                if not ok:
                    return
            if rng.random() < 0.4:
                if rng.random() < 0.4:
                    # a state a risk function that reports no history leaves behind (or p-values and flags set through
                    # the constructor): measured risk and confirmation present, history empty.  Reset is from ANY state
                    for con in sim.contests.values():
                        for j, asn in enumerate(con.assertions.values()):
                            if j % 2 == 0:
                                asn.p_history = []
                    rec.count("reset_from_a_state_with_p_values_but_empty_histories")
                ok, _ = rec.guard("c09.call:reset_p_values", A.reset_p_values, sim.contests)
                if not ok:
                    return
    rec.case(es, nontrivial=(len(lims) >= 2 and ("p_ok", True) in seen and ("p_ok", False) in seen),
             sample={"contests": {k: {kk: v[kk] for kk in ("kind", "risk_limit", "audit_type", "test")} for k, v in es["contests"].items()},
                     "n_cards": len(es["cards"]), "use_style": es["use_style"]})
