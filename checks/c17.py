"""C17 — each sample number maps to exactly one card; manifests account for every card.

Reference-model monitors (reference = explicit enumeration `for batch: for k in range(size)`):
  c17.prep     contract-style check of Dominion/Hart.prep_manifest: phantom batch appended iff bound > total,
               cumulative count ends at the bound, returned counts, AssertionError iff total > bound or total < n_cvrs.
  c17.lookup   sample_from_manifest over the WHOLE valid range (shuffled), both vendors: (batch, position) equals the
               enumeration's, position within the batch size, injective, selection order recorded, phantom MVRs exactly
               for phantom-batch cards.
  c17.cvrs     sample_from_cvrs (both vendors): CVRs come back in selection order with matching identifiers; phantom
               MVRs exactly for phantom CVRs; selection order recorded.
"""
import random

import numpy as np

RULE = ("seeded random manifests with 1-8 batches of sizes from {0,1,2,3,7,100} (empty first/last/consecutive batches "
        "forced), default / offset / permuted row labels, bounds total, total+1, total+many; two lookups per manifest; samples = full valid range shuffled / boundaries / phantoms only; "
        "non-trivial = manifest has an empty batch or needs a phantom batch; distinct = hash of (vendor, sizes, bound, sample)")
REQUIRED = ["prep_checked:dominion", "prep_checked:hart", "prep_rejections_checked", "lookup_checked:dominion",
            "lookup_checked:hart", "lookups_with_empty_batches", "lookups_with_phantom_batch", "cvrs_checked:dominion",
            "cvrs_checked:hart", "sample_numbers_mapped", "phantom_cards_sampled",
            "manifest_row_labels_not_0_to_n", "manifest_row_labels_not_0_to_n_and_no_phantom_batch",
            "second_lookup_in_same_manifest", "cvr_identifiers_with_zero_padded_card_numbers",
            "sampled_phantom_cvrs_with_another_identifier_prefix", "lookups_with_repeated_sample_numbers", "manifest_columns_not_in_canonical_order",
            "manifest_counts_stored_unsigned_narrow_or_float", "manifest_already_carries_a_cumulative_count_column",
            "sample_given_as_a_series_with_other_row_labels", "cvrs_whose_tally_pool_is_not_their_own_batch",
            "lookups_in_a_manifest_whose_phantom_batch_is_not_the_last_row",
            "sample_given_as_a_one_pass_iterator",
            "hart_manifests_with_a_real_batch_named_like_the_phantom_batch",
            "dominion_manifests_with_an_unlabelled_batch"]
ASSUMPTIONS = ["unique (tabulator, batch) labels per manifest", "Dominion lookup is 1-based, Hart lookup 0-based, as each "
               "vendor module documents and its test pins", "phantom CVR ids use the documented prefix 'phantom-1-'"]
N_CASES = {"quick": 8000, "thorough": 64000}
SIZES = (0, 1, 2, 3, 7, 100)


def plan(tier, seed):
    shards = 16
    return [{"n": N_CASES[tier] // shards, "shard": i} for i in range(shards)]


def gen_manifest(rng):
    nb = rng.randint(1, 8)
    sizes = [rng.choice(SIZES) for _ in range(nb)]
    mode = rng.choice(("any", "empty_first", "empty_last", "empty_consecutive", "single", "only_one_nonempty"))
    if mode == "empty_first":
        sizes[0] = 0
    elif mode == "empty_last":
        sizes[-1] = 0
    elif mode == "empty_consecutive" and nb >= 3:
        j = rng.randrange(nb - 1)
        sizes[j] = sizes[j + 1] = 0
    elif mode == "single":
        sizes = [rng.choice((1, 2, 7, 100))]
    elif mode == "only_one_nonempty":
        keep = rng.randrange(nb)
        sizes = [s if i == keep else 0 for i, s in enumerate(sizes)]
    if sum(sizes) == 0:
        sizes[rng.randrange(len(sizes))] = rng.choice((1, 3, 7))
    total = sum(sizes)
    extra = rng.choice((0, 0, 1, 5, 40))
    return {"sizes": sizes, "bound": total + extra}


def frames(case, vendor):
    import pandas as pd
    sizes = case["sizes"]
    df = _frames(case, vendor, pd, sizes)
    # the row labels of a manifest are whatever the earlier processing left: 0..n-1 from a fresh read, the original labels
    # after rows were dropped (offset) or the table was sorted by another column (permuted)
    cd = case.get("count_dtype")
    if cd:
        # the count column as the file reader left it: unsigned, narrow or floating point
        col = "Total Ballots" if vendor == "dominion" else "Number of Ballots"
        df[col] = df[col].astype(cd)
    cm = case.get("col_mode", "canonical")
    if cm != "canonical":
        # columns are addressed by NAME: a manifest may store them in any order and carry other columns as well
        cols = list(df.columns)
        random.Random(len(sizes) * 7 + sum(sizes)).shuffle(cols)
        df = df[cols]
        if cm == "extra":
            df.insert(0, "Notes", ["" for _ in sizes])
    if case.get("stale_cum"):
        # the manifest already carries a cumulative-count column from earlier processing (computed before batches were
        # dropped or re-ordered, or simply by another tool): preparation must work from the batch sizes it is given
        tot, acc = 0, []
        for sz in reversed(sizes):
            tot += sz + 1
            acc.append(tot)
        df["cum_cards"] = acc
    mode = case.get("index_mode", "default")
    if mode == "offset":
        df.index = range(3, 3 + len(sizes))
    elif mode == "permuted":
        lab = list(range(len(sizes)))
        random.Random(len(sizes) * 31 + sum(sizes)).shuffle(lab)
        df.index = lab
    return df


def _frames(case, vendor, pd, sizes):
    if vendor == "dominion":
        # (one batch may be unlabelled - loose ballots logged without tabulator and batch: its cards are cards all the same)
        ub = case.get("unlabelled_batch")
        blank = lambda i, v: None if (ub is not None and i == ub % len(sizes)) else v
        return pd.DataFrame({"Tray #": [i + 1 for i in range(len(sizes))],
                             "Tabulator Number": pd.Series([blank(i, 10 + i // 3) for i in range(len(sizes))], dtype=object),
                             "Batch Number": pd.Series([blank(i, i + 1) for i in range(len(sizes))], dtype=object),
                             "Total Ballots": sizes,
                             "VBMCart.Cart number": [1 + i // 4 for i in range(len(sizes))]})
    return pd.DataFrame({"Container": [f"box{i // 2}" for i in range(len(sizes))],
                         "Tabulator": [f"tab{i // 3}" for i in range(len(sizes))],
                         # (batches may simply be numbered: the phantom batch that preparation appends is "1" as well)
                         "Batch Name": [(str(i + 1) if case.get("numeric_batches") else f"B{i + 1}") for i in range(len(sizes))],
                         "Number of Ballots": sizes})


def run_shard(spec, rec):
    rng = random.Random(f"c17-{spec['seed']}-{spec['shard']}")
    for i in range(spec["n"]):
        case = gen_manifest(rng)
        case["vendor"] = ("dominion", "hart")[i % 2]
        case["sample_mode"] = rng.choice(("full", "full", "boundaries", "phantoms", "random"))
        case["sseed"] = rng.randrange(10 ** 9)
        case["n_cvrs"] = rng.randint(0, sum(case["sizes"]))
        case["index_mode"] = rng.choice(("default", "default", "offset", "permuted"))
        case["padded_ids"] = rng.random() < 0.3
        case["col_mode"] = rng.choice(("canonical", "canonical", "shuffled", "extra"))
        case["count_dtype"] = rng.choice((None, None, "uint64", "uint8", "int32", "float64"))
        case["phantom_prefix"] = rng.choice(("phantom-1-", "phantom-1-", "ph-1-", "Phantom-2-"))
        case["stale_cum"] = rng.random() < 0.15
        case["sample_container"] = rng.choice(("list", "list", "array", "series", "series_relabelled", "iterator"))
        case["tally_pool_mode"] = rng.choice((None, None, "own", "merged", "precinct"))
        case["numeric_batches"] = rng.random() < 0.25
        case["unlabelled_batch"] = rng.randrange(8) if rng.random() < 0.1 else None
        run_case(case, rec)


def enumeration(sizes, labels, bound, one_based):
    """All cards of the prepared manifest in manifest order: list of (tab, batch, position, is_phantom)."""
    out = []
    for (tab, batch), n in zip(labels, sizes):
        for k in range(n):
            out.append((tab, batch, k + 1 if one_based else k, False))
    for k in range(bound - sum(sizes)):
        out.append(("phantom", "1", k + 1 if one_based else k, True))
    return out


def run_case(case, rec):
    from shangrla.formats.Dominion import Dominion
    from shangrla.formats.Hart import Hart
    from shangrla.core.Audit import CVR
    vendor = case["vendor"]
    V = Dominion if vendor == "dominion" else Hart
    sizes, bound = case["sizes"], case["bound"]
    total = sum(sizes)
    rng = random.Random(case["sseed"])
    rec.case(case, nontrivial=(0 in sizes or bound > total))
    if case.get("col_mode", "canonical") != "canonical":
        rec.count("manifest_columns_not_in_canonical_order")
    if case.get("count_dtype"):
        rec.count("manifest_counts_stored_unsigned_narrow_or_float")
    if case.get("stale_cum"):
        rec.count("manifest_already_carries_a_cumulative_count_column")
    if case.get("unlabelled_batch") is not None and vendor == "dominion":
        rec.count("dominion_manifests_with_an_unlabelled_batch")
    if case.get("numeric_batches") and vendor == "hart" and bound > sum(sizes):
        rec.count("hart_manifests_with_a_real_batch_named_like_the_phantom_batch")
    if case.get("index_mode", "default") != "default":
        rec.count("manifest_row_labels_not_0_to_n" + ("_and_no_phantom_batch" if bound == total else ""))
    tabcol, batchcol, sizecol = (("Tabulator Number", "Batch Number", "Total Ballots") if vendor == "dominion"
                                 else ("Tabulator", "Batch Name", "Number of Ballots"))

    # ---- prep_manifest ------------------------------------------------------------------------------------
    df = frames(case, vendor)
    lab_ = lambda v: "nan" if (v is None or v != v) else str(v)      # (a blank cell reads "nan" once pandas has handled the frame)
    labels = [(lab_(a), lab_(b)) for a, b in zip(df[tabcol], df[batchcol])]
    ok, res = rec.guard(f"c17.call:{vendor}.prep_manifest", V.prep_manifest, df.copy(), bound, case["n_cvrs"])
    if not ok:
        return
    man, man_cards, phantoms = res
    rec.count(f"prep_checked:{vendor}")
    if int(man_cards) != total or int(phantoms) != bound - total:
        rec.violation("c17.prep", f"{vendor}:returned_counts_wrong", {"manifest_cards": man_cards, "phantoms": phantoms,
                                                                       "total": total, "bound": bound})
        return
    want_rows = len(sizes) + (1 if bound > total else 0)
    if len(man) != want_rows:
        rec.violation("c17.prep", f"{vendor}:phantom_batch_iff_bound_exceeds_total", {"rows": len(man), "want": want_rows})
        return
    if any(v != v for v in man["cum_cards"]):
        rec.violation("c17.prep", f"{vendor}:cumulative_count_does_not_end_at_bound", {"cum": [float(v) for v in man["cum_cards"]], "bound": bound})
        return
    cum = [int(v) for v in man["cum_cards"]]
    if cum[-1] != bound or cum != list(np.cumsum(sizes + ([bound - total] if bound > total else []))):
        rec.violation("c17.prep", f"{vendor}:cumulative_count_does_not_end_at_bound", {"cum": cum, "bound": bound})
        return
    if bound > total and (str(man.iloc[-1][tabcol]) != "phantom" or int(float(man.iloc[-1][sizecol])) != bound - total):
        rec.violation("c17.prep", f"{vendor}:last_row_is_not_the_phantom_batch", {"row": [str(v) for v in man.iloc[-1]]})
        return
    # refusals
    for kind, (b2, n2) in (("oversized", (total - 1, 0)), ("fewer_cards_than_cvrs", (total + 3, total + 1))):
        if b2 < 0:
            continue
        try:
            V.prep_manifest(frames(case, vendor), b2, n2)
            rec.violation("c17.prep", f"{vendor}:accepts_{kind}_manifest", {"total": total, "bound": b2, "n_cvrs": n2})
        except AssertionError:
            rec.count("prep_rejections_checked")
        except Exception as e:
            ok, _ = rec.guard(f"c17.call:{vendor}.prep_manifest", lambda: (_ for _ in ()).throw(e))

    # ---- sample_from_manifest over the valid range ----------------------------------------------------------
    one_based = vendor == "dominion"
    enum = enumeration(sizes, labels, bound, one_based)
    valid = list(range(1, bound + 1)) if one_based else list(range(0, bound))
    mode = case["sample_mode"]
    if mode == "full" and bound <= 260:
        sample = valid[:]
    elif mode == "boundaries":
        idx = set()
        c = 0
        for n in sizes + [bound - total]:
            if n:
                idx.update((c, c + n - 1))
            c += n
        sample = [valid[i] for i in sorted(idx)]
    elif mode == "phantoms" and bound > total:
        sample = valid[total:]
    else:
        sample = rng.sample(valid, min(len(valid), rng.randint(1, 40)))
    rng.shuffle(sample)
    def lookup(sample):
        # the drawn numbers as a list, a numpy array or a pandas Series (also one whose row labels are not 0..n-1: the
        # numbers after sorting or filtering) - a sequence of numbers in every case
        sc = case.get("sample_container", "list")
        arg = sample
        if sc != "list":
            import pandas as pd
            arg = (np.array(sample) if sc == "array" else pd.Series(sample) if sc == "series"
                   else iter(list(sample)) if sc == "iterator"      # (numbers streamed from a file or a generator: one pass)
                   else pd.Series(sample, index=list(range(len(sample), 0, -1))))
            if sc == "iterator":
                rec.count("sample_given_as_a_one_pass_iterator")
            rec.count("sample_given_as_array_or_series")
            if sc == "series_relabelled":
                rec.count("sample_given_as_a_series_with_other_row_labels")
        ok, res = rec.guard(f"c17.call:{vendor}.sample_from_manifest", V.sample_from_manifest, man, arg)
        if not ok:
            return False
        cards, sample_order, mvr_ph = res
        rec.count(f"lookup_checked:{vendor}")
        if 0 in sizes:
            rec.count("lookups_with_empty_batches")
        if bound > total:
            rec.count("lookups_with_phantom_batch")
        want = {}
        for i, s in enumerate(sample):
            tab, batch, pos, ph = enum[s - 1 if one_based else s]
            want[s] = (f"{tab}-{batch}-{pos}", i, ph, tab, batch, pos)
        rec.count("sample_numbers_mapped", len(sample))
        want_ids = [w[0] for w in want.values()]
        got_ids = [c[5] if vendor == "dominion" else c[4] for c in cards]
        if sorted(got_ids) != sorted(want_ids):
            # diagnose: off-by-one at a batch boundary / empty batch?
            wrong = [(s, want[s][0]) for s in sample if want[s][0] not in got_ids]
            at_boundary = all(want[s][5] in ((1, ) if one_based else (0, )) or
                              want[s][5] == (dict(zip(labels + [("phantom", "1")], sizes + [bound - total]))[(want[s][3], want[s][4])] - (0 if one_based else 1))
                              for s, _ in wrong) if wrong else False
            rec.violation("c17.lookup", f"{vendor}:{'wrong_card_at_batch_boundary' if at_boundary else 'wrong_card'}",
                          {"expected_not_returned": wrong[:5], "returned": got_ids[:12], "sizes": sizes, "bound": bound})
            return False
        if len(set(got_ids)) != len(got_ids):
            rec.violation("c17.lookup", f"{vendor}:two_sample_numbers_one_card", {"ids": got_ids})
            return False
        sizes_by = dict(zip(labels + [("phantom", "1")], sizes + [bound - total]))
        for c in cards:
            tab, batch, pos = (c[2], c[3], c[4]) if vendor == "dominion" else (c[1], c[2], c[3])
            n = sizes_by[(str(tab), str(batch))]
            if not ((1 <= pos <= n) if one_based else (0 <= pos < n)):
                rec.violation("c17.lookup", f"{vendor}:position_outside_batch", {"card": [str(v) for v in c], "batch_size": n})
                return False
        for s in sample:
            cid, i, ph, *_ = want[s]
            so = sample_order.get(cid)
            if so is None or so.get("selection_order") != i:
                rec.violation("c17.lookup", f"{vendor}:selection_order_wrong", {"card": cid, "got": so, "want": i})
                return False
        want_ph = sorted(w[0] for w in want.values() if w[2])
        got_ph = sorted(m.id for m in mvr_ph)
        rec.count("phantom_cards_sampled", len(want_ph))
        if got_ph != want_ph or any((not m.phantom) or m.votes for m in mvr_ph):
            rec.violation("c17.lookup", f"{vendor}:phantom_mvrs_wrong", {"got": got_ph, "want": want_ph})
            return False
        return True

    if not lookup(sample):
        return
    # a later round looks up other numbers (and some of the same) in the SAME prepared manifest
    sample2 = [s for s in reversed(sample) if rng.random() < 0.5] + [s for s in valid if s not in sample][:5]
    if sample2:
        rec.count("second_lookup_in_same_manifest")
        if not lookup(sample2):
            return
    # a sample that names some numbers twice (draws with replacement, or two rounds concatenated): every card's recorded
    # selection order must be a position at which its number was drawn (for a number drawn once: that position)
    if len(sample) >= 2:
        sample3 = list(sample[: 12])
        for _ in range(rng.randint(1, 3)):
            sample3.insert(rng.randrange(len(sample3) + 1), rng.choice(sample3))
        ok, res = rec.guard(f"c17.call:{vendor}.sample_from_manifest", V.sample_from_manifest, man, sample3)
        if not ok:
            return
        rec.count("lookups_with_repeated_sample_numbers")
        so3 = res[1]
        for snum in set(sample3):
            tab, batch, pos, ph = enum[snum - 1 if one_based else snum]
            cid = f"{tab}-{batch}-{pos}"
            got = (so3.get(cid) or {}).get("selection_order")
            where = [k for k, v in enumerate(sample3) if v == snum]
            if got not in where:
                rec.violation("c17.lookup", f"{vendor}:selection_order_is_not_a_position_at_which_the_number_was_drawn",
                              {"card": cid, "recorded": got, "drawn_at": where, "sample": sample3})
                return

    # two separately prepared counting groups stacked into one manifest (cumulative counts recomputed): the first group's
    # phantom batch is then in the MIDDLE of the manifest - the cards that fall into it, and no others, are phantoms
    if bound > total and bound + 6 <= 300:
        import pandas as pd
        sizes2 = [3, 0, 2]
        if vendor == "dominion":
            df2 = pd.DataFrame({"Tray #": [1, 2, 3], "Tabulator Number": [501, 501, 502], "Batch Number": [1, 2, 1],
                                "Total Ballots": sizes2, "VBMCart.Cart number": [9, 9, 9]})
            labels2 = [("501", "1"), ("501", "2"), ("502", "1")]
        else:
            df2 = pd.DataFrame({"Container": ["z", "z", "z"], "Tabulator": ["t501", "t501", "t502"], "Batch Name": ["Z1", "Z2", "Z3"],
                                "Number of Ballots": sizes2})
            labels2 = [("t501", "Z1"), ("t501", "Z2"), ("t502", "Z3")]
        okp, p2 = rec.guard(f"c17.call:{vendor}.prep_manifest", V.prep_manifest, df2, 5, 0)
        if not okp:
            return
        stacked = pd.concat([man, p2[0]], ignore_index=True)
        stacked["cum_cards"] = pd.to_numeric(stacked[sizecol]).astype("int64").cumsum()
        enum_s = enum + enumeration(sizes2, labels2, 5, one_based)
        nums = list(range(1, len(enum_s) + 1)) if one_based else list(range(len(enum_s)))
        rng.shuffle(nums)
        oks, rs = rec.guard(f"c17.call:{vendor}.sample_from_manifest", V.sample_from_manifest, stacked, nums)
        if not oks:
            return
        rec.count("lookups_in_a_manifest_whose_phantom_batch_is_not_the_last_row")
        want_all = sorted(f"{t_}-{b_}-{p_}" for t_, b_, p_, _ in enum_s)
        got_all = sorted(str(c[5]) if vendor == "dominion" else str(c[4]) for c in rs[0])
        want_phs = sorted(f"{t_}-{b_}-{p_}" for t_, b_, p_, ph_ in enum_s if ph_)
        got_phs = sorted(m.id for m in rs[2])
        if got_all != want_all:
            rec.violation("c17.lookup", f"{vendor}:wrong_card:stacked_manifest", {"got": got_all[:10], "want": want_all[:10]})
            return
        if got_phs != want_phs or any((not m.phantom) or m.votes for m in rs[2]):
            rec.violation("c17.lookup", f"{vendor}:phantom_mvrs_wrong:stacked_manifest", {"got": got_phs, "want": want_phs})
            return
    # ---- sample_from_cvrs -----------------------------------------------------------------------------------
    cvr_list = []
    for (tab, batch, pos, ph) in enum:
        if ph:
            # what makes a record a phantom is its flag; make_phantoms lets the caller choose the identifier prefix
            # (Dominion keeps the identifier as it is; Hart rewrites it with the documented prefix, so it keeps that one)
            pre = case.get("phantom_prefix", "phantom-1-") if vendor == "dominion" else "phantom-1-"
            cvr_list.append(CVR(id=f"{pre}{pos}", votes={}, phantom=True))
        elif vendor == "dominion":
            c = CVR(id=(f"{tab}-{batch}-{pos:03d}" if case.get("padded_ids") else f"{tab}-{batch}-{pos}"), votes={"x": {"a": 1}})
            # card_in_batch is a separate attribute (set_card_in_batch_lex makes it the 0-based lexicographic position):
            # identifiers must come from the CVR id whatever it holds
            c.card_in_batch = rng.choice((pos, pos - 1, None, pos + 100))
            # the tally pool is an audit-side label (read_cvrs records tabulator-batch; ONEAudit may merge small batches
            # into one pool, or pool by precinct): where a card is STORED is what its identifier says
            tpm = case.get("tally_pool_mode")
            if tpm == "own":
                c.tally_pool = f"{tab}-{batch}"
            elif tpm == "merged":
                c.tally_pool = f"{enum[0][0]}-{enum[0][1]}"
            elif tpm == "precinct":
                c.tally_pool = "precinct-7"
            cvr_list.append(c)
        else:
            # Hart identifiers are built from the raw text of the export: the sheet number may be zero-padded
            cvr_list.append(CVR(id=(f"{batch}_{pos:03d}" if case.get("padded_ids") else f"{batch}_{pos}"), votes={"x": {"a": 1}}))
    k = min(len(cvr_list), rng.randint(1, 25))
    picks = rng.sample(range(len(cvr_list)), k)
    ok, res = rec.guard(f"c17.call:{vendor}.sample_from_cvrs", V.sample_from_cvrs, cvr_list, man, np.array(picks))
    if not ok:
        return
    cards2, order2, cvr_sample, mvr_ph2 = res
    rec.count(f"cvrs_checked:{vendor}")
    if case.get("padded_ids"):
        rec.count("cvr_identifiers_with_zero_padded_card_numbers")
    if vendor == "dominion" and case.get("phantom_prefix", "phantom-1-") != "phantom-1-" and any(cvr_list[i].phantom for i in picks):
        rec.count("sampled_phantom_cvrs_with_another_identifier_prefix")
    if [c.id for c in cvr_sample] != [cvr_list[i].id for i in picks] or any(a is not cvr_list[i] for a, i in zip(cvr_sample, picks)):
        rec.violation("c17.cvrs", f"{vendor}:cvrs_not_in_selection_order", {"got": [c.id for c in cvr_sample],
                                                                             "want": [cvr_list[i].id for i in picks]})
        return
    for j, i in enumerate(picks):
        cid = cvr_list[i].id
        so = order2.get(cid)
        if so is None or so.get("selection_order") != j:
            rec.violation("c17.cvrs", f"{vendor}:selection_order_or_identifier_wrong", {"cvr": cid, "got": so, "want": j,
                                                                                         "keys": list(order2)[:6]})
            return
    want_ph2 = sorted(cvr_list[i].id for i in picks if cvr_list[i].phantom)
    if sorted(m.id for m in mvr_ph2) != want_ph2 or any(not m.phantom for m in mvr_ph2):
        rec.violation("c17.cvrs", f"{vendor}:phantom_mvrs_wrong", {"got": sorted(m.id for m in mvr_ph2), "want": want_ph2})
        return
    if vendor == "dominion":
        if case.get("tally_pool_mode") in ("merged", "precinct"):
            rec.count("cvrs_whose_tally_pool_is_not_their_own_batch")
        # cart and tray are those of the card's own batch (the manifest row its identifier names)
        where = {(str(r[tabcol]), str(r[batchcol])): (r["VBMCart.Cart number"], r["Tray #"]) for _, r in man.iterrows()}
        for c in cards2:
            if c[0] == "" and c[1] == "":
                continue   # phantom
            if (c[0], c[1]) != where.get((str(c[2]), str(c[3]))):
                rec.violation("c17.cvrs", "dominion:card_sent_to_the_cart_and_tray_of_another_batch",
                              {"card": [str(v) for v in c], "own_batch_is_in": [str(v) for v in where.get((str(c[2]), str(c[3])), ())]})
                return
    ids_in_cards = sorted(str(c[5]) if vendor == "dominion" else str(c[-1]) for c in cards2)
    if ids_in_cards != sorted(cvr_list[i].id for i in picks):
        rec.violation("c17.cvrs", f"{vendor}:card_identifiers_do_not_match_cvrs", {"got": ids_in_cards[:8]})
