"""C19 — Dominion import reflects counted marks, adjudication and grouping faithfully.

  c19.ref    reference-model monitor: exports are generated as Python dicts, written with json.dump into a scratch
             directory under /verif, read by the real Dominion.read_cvrs / read_cvrs_directory, and compared record by
             record with a reference reading written from the property text.
  c19.meta   metamorphic monitor: the same export with marks shuffled, with sort_keys=True (puts "Modified" before
             "Original") and with "Modified" emitted first must give the identical list.
"""
import copy
import json
import os
import random
import shutil

from vlib import env

RULE = ("seeded random exports (0-6 sessions, both layouts, 0-4 contests, 0-6 marks per contest with repeated candidates, "
        "ranks 0-5, IsVote mixed, obfuscated record ids) x the option grid use_current x enforce_rules x include_groups "
        "x pool_groups; non-trivial = some candidate has >= 2 marks or a Modified block is present; distinct = hash of "
        "(export, options)")
REQUIRED = ["ref_compared", "meta:marks_shuffled", "meta:sorted_keys", "meta:modified_first", "layout:cards",
            "layout:contests", "obfuscated_record_ids", "obfuscated_record_ids_whose_number_is_0", "plain_record_ids_whose_image_number_differs", "sessions_with_modified", "sessions_whose_blocks_use_different_layouts",
            "group_options_given_as_tuple_set_or_frozenset", "duplicate_marks_contests",
            "uncounted_marks_contests", "directory_reads", "group_filtered_out"]
ASSUMPTIONS = ["a contest appears at most once per data block of a session (the property does not say which copy wins)"]
N_CASES = {"quick": 24000, "thorough": 200000}
GROUPS = ([], [1], [2], [1, 2])


def plan(tier, seed):
    shards = 16
    return [{"n": N_CASES[tier] // shards, "shard": i} for i in range(shards)]


def gen_marks(rng):
    n = rng.choice((0, 1, 1, 2, 3, 4, 6))
    cands = [rng.randint(1, 4) for _ in range(n)]
    return [{"CandidateId": c, "PartyId": 0, "Rank": rng.choice((0, 1, 1, 2, 3, 4, 5, 9, 10, 11, 23)), "MarkDensity": rng.randint(0, 100),
             "IsAmbiguous": False, "IsVote": rng.random() < 0.7} for c in cands]


def gen_block(rng, contest_ids, layout):
    cons = [{"Id": cid, "Marks": gen_marks(rng)} for cid in contest_ids]
    for con in cons:
        # the other per-contest fields of a real export (tallies of the scanner's own interpretation): not marks
        if rng.random() < 0.5:
            con["Overvotes"] = rng.choice((0, 0, 1, 2))
            con["Undervotes"] = rng.choice((0, 1, 3))
            con["OutstackConditionIds"] = rng.choice(([], [1], [5, 7]))
    if layout == "cards":
        ncards = rng.randint(1, 3)
        cards = [{"Id": k + 1, "PaperIndex": k, "Contests": []} for k in range(ncards)]
        for c in cons:
            rng.choice(cards)["Contests"].append(c)
        return {"PrecinctPortionId": 1, "BallotTypeId": 1, "IsCurrent": True, "Cards": cards}
    return {"PrecinctPortionId": 1, "BallotTypeId": 1, "IsCurrent": True, "Contests": cons}


def gen_export(rng):
    layout = rng.choice(("cards", "contests"))
    ns = rng.choice((0, 1, 2, 3, 4, 6))
    sessions = []
    for s in range(ns):
        all_c = rng.sample([11, 12, 13, 14], rng.randint(0, 4))
        tab, batch, recid = rng.choice((rng.randint(1, 99), rng.randint(1, 99), 100001, 123456)), rng.randint(1, 20), rng.choice((rng.randint(1, 500), rng.randint(1, 500), 0))   # (record numbers start wherever the vendor starts them)
        sess = {"TabulatorId": tab, "BatchId": batch, "RecordId": recid, "CountingGroupId": rng.choice((1, 2)),
                "ImageMask": rng.choice(("D:\\\\NAS\\\\Images\\\\", "D:\\\\NAS\\\\2024_11_05 GENERAL\\\\Results\\\\Images\\\\",
                                         "E:\\\\3_4_5\\\\Tabulator00007\\\\Batch003\\\\Images\\\\", ""))
                             + f"{tab:05d}_{batch:05d}_{recid:06d}*.*", "SessionType": "ScannedVote",
                "VotingSessionIdentifier": ""}
        if rng.random() < 0.3:
            sess["RecordId"] = "X"
        elif rng.random() < 0.2:
            # an image file numbered differently from the record (images renumbered on export): the record number is RecordId
            sess["ImageMask"] = sess["ImageMask"].replace(f"_{recid:06d}*", f"_{recid + 12:06d}*")
            sess["_mask_differs"] = True
        order = ["Original", "Modified"] if rng.random() < 0.6 else ["Modified", "Original"]
        has_mod = rng.random() < 0.45
        blocks = {"Original": gen_block(rng, all_c, layout)}
        if has_mod:
            sub = rng.sample(all_c, rng.randint(0, len(all_c))) + ([15] if rng.random() < 0.2 else [])
            # the adjudicated block is written by another component of the system: occasionally in the other layout
            mixed = rng.random() < 0.15
            blocks["Modified"] = gen_block(rng, sub, ({"cards": "contests", "contests": "cards"}[layout] if mixed else layout))
            blocks["Original"]["IsCurrent"] = False
        for k in order:
            if k in blocks:
                sess[k] = blocks[k]
        sessions.append(sess)
    return {"Version": "5.10.50.85", "ElectionId": "x", "Sessions": sessions}, layout


def block_contests(block):
    if "Cards" in block:
        return [c for card in block["Cards"] for c in card["Contests"]]
    return block["Contests"]


def ref_read(export, use_current, enforce_rules, include_groups, pool_groups):
    out = []
    for s in export["Sessions"]:
        if include_groups and s["CountingGroupId"] not in include_groups:
            continue
        votes = {}
        for k in (["Original", "Modified"] if use_current else ["Original"]):
            if k not in s:
                continue
            for con in block_contests(s[k]):
                cv = {}
                for m in con["Marks"]:
                    if not (m["IsVote"] or not enforce_rules):
                        continue
                    c = str(m["CandidateId"])
                    pos = [mm["Rank"] for mm in con["Marks"]
                           if str(mm["CandidateId"]) == c and (mm["IsVote"] or not enforce_rules) and mm["Rank"] > 0]
                    cv[c] = min(pos) if pos else 0
                votes[str(con["Id"])] = cv
        rid = s["RecordId"]
        if rid == "X":
            rid = int(s["ImageMask"].split("\\")[-1].split("*")[0].split("_")[-1])
        out.append({"id": f"{s['TabulatorId']}-{s['BatchId']}-{rid}", "tally_pool": f"{s['TabulatorId']}-{s['BatchId']}",
                    "pool": s["CountingGroupId"] in pool_groups, "votes": votes})
    return out


def run_shard(spec, rec):
    rng = random.Random(f"c19-{spec['seed']}-{spec['shard']}")
    for i in range(spec["n"]):
        export, layout = gen_export(rng)
        opts = {"use_current": rng.random() < 0.7, "enforce_rules": rng.random() < 0.6,
                "include_groups": GROUPS[i % 4], "pool_groups": GROUPS[(i // 4) % 4]}
        case = {"kind": "file", "export": export, "opts": opts, "layout": layout, "mseed": rng.randrange(10 ** 9)}
        if i % 10 == 9:
            e2, _ = gen_export(rng)
            e3, _ = gen_export(rng)
            case = {"kind": "dir", "exports": [export, e2, e3], "names": rng.sample(["CvrExport_2.json", "CvrExport_10.json",
                    "CvrExport_1.json", "CvrExport_b.json"], 3), "opts": opts, "layout": layout}
        run_case(case, rec)


def as_list(cvrs):
    return [{"id": c.id, "tally_pool": c.tally_pool, "pool": c.pool, "votes": c.votes, "phantom": c.phantom} for c in cvrs]


def diff(got, want):
    if len(got) != len(want):
        return "record_count_or_group_filter", {"got": len(got), "want": len(want)}
    for g, w in zip(got, want):
        if g["id"] != w["id"]:
            return "id_or_order", {"got": g["id"], "want": w["id"]}
        if g["tally_pool"] != w["tally_pool"]:
            return "tally_pool", {"got": g["tally_pool"], "want": w["tally_pool"]}
        if g["pool"] != w["pool"] or type(g["pool"]) is not bool:
            return "pool_flag", {"id": g["id"], "got": g["pool"], "want": w["pool"]}
        if g.get("phantom"):
            return "phantom_invented", {"id": g["id"]}
        if g["votes"] != w["votes"]:
            return "votes", {"id": g["id"], "got": g["votes"], "want": w["votes"]}
    return None


def classify_votes(export, opts, got, want):
    """Tested diagnosis of a votes mismatch -> mechanism signature."""
    alt = dict(opts)
    for name, change in (("uncounted_marks_not_ignored_or_wrongly_ignored", {"enforce_rules": not opts["enforce_rules"]}),
                         ("adjudication_precedence", {"use_current": not opts["use_current"]})):
        a2 = dict(alt)
        a2.update(change)
        if as_plain(ref_read(export, **a2)) == as_plain(got):
            return name
    # Original-wins variant
    if opts["use_current"]:
        e2 = copy.deepcopy(export)
        for s in e2["Sessions"]:
            if "Modified" in s and "Original" in s:
                s["Original"], s["Modified"] = s["Modified"], s["Original"]
        if as_plain(ref_read(e2, **opts)) == as_plain(got):
            return "original_overwrites_modified"
    return "mark_rank_rule"


def as_plain(lst):
    return [{k: v for k, v in r.items() if k != "phantom"} for r in lst]


def run_case(case, rec):
    from shangrla.formats.Dominion import Dominion
    opts = case["opts"]
    d = env.scratch_dir("c19")
    try:
        if case["kind"] == "dir":
            for name, ex in zip(case["names"], case["exports"]):
                with open(os.path.join(d, name), "w") as f:
                    json.dump(ex, f)
            with open(os.path.join(d, "Other_1.json"), "w") as f:
                f.write("{}")
            rec.case(case, nontrivial=True, sample={"kind": "dir", "names": case["names"], "opts": opts})
            ok, cvrs = rec.guard("c19.call:read_cvrs_directory", Dominion.read_cvrs_directory, d, opts["use_current"],
                                 opts["enforce_rules"], opts["include_groups"], opts["pool_groups"])
            if not ok:
                return
            rec.count("directory_reads")
            want = []
            for name in sorted(case["names"]):
                want += ref_read(case["exports"][case["names"].index(name)], **opts)
            bad = diff(as_list(cvrs), want)
            if bad:
                rec.violation("c19.ref", f"directory:{bad[0]}", bad[1])
            return
        export = case["export"]
        nontriv = False
        for s in export["Sessions"]:
            if "Modified" in s:
                nontriv = True
                rec.count("sessions_with_modified")
                if "Original" in s and ("Cards" in s["Modified"]) != ("Cards" in s["Original"]):
                    rec.count("sessions_whose_blocks_use_different_layouts")
            for k in ("Original", "Modified"):
                if k in s:
                    for con in block_contests(s[k]):
                        ids = [m["CandidateId"] for m in con["Marks"]]
                        if len(set(ids)) < len(ids):
                            nontriv = True
                            rec.count("duplicate_marks_contests")
                        if any(not m["IsVote"] for m in con["Marks"]):
                            rec.count("uncounted_marks_contests")
            if s.get("_mask_differs"):
                rec.count("plain_record_ids_whose_image_number_differs")
            if s["RecordId"] == "X":
                rec.count("obfuscated_record_ids")
                if s["ImageMask"].split("*")[0].endswith("_000000"):
                    rec.count("obfuscated_record_ids_whose_number_is_0")
            if opts["include_groups"] and s["CountingGroupId"] not in opts["include_groups"]:
                rec.count("group_filtered_out")
        rec.case(case, nontrivial=nontriv, sample={"opts": opts, "layout": case["layout"],
                                                   "sessions": export["Sessions"][:1]})
        rec.count(f"layout:{case['layout']}")
        path = os.path.join(d, "CvrExport_0.json")

        def read(ex, **dump_kw):
            with open(path, "w") as f:
                json.dump(ex, f, **dump_kw)
            # the group options are collections of group numbers: lists in the documentation, but a tuple, a set or a
            # frozenset holds the same numbers
            kind = (list, tuple, set, frozenset)[case.get("mseed", 0) % 4]
            if kind is not list:
                rec.count("group_options_given_as_tuple_set_or_frozenset")
            return rec.guard("c19.call:read_cvrs", Dominion.read_cvrs, path, opts["use_current"], opts["enforce_rules"],
                             kind(opts["include_groups"]), kind(opts["pool_groups"]))

        ok, cvrs = read(export)
        if not ok:
            return
        got = as_list(cvrs)
        want = ref_read(export, **opts)
        rec.count("ref_compared")
        bad = diff(got, want)
        if bad:
            mech = bad[0]
            if mech == "votes":
                mech = "votes:" + classify_votes(export, opts, got, want)
            rec.violation("c19.ref", mech, bad[1])
            return
        # ---- metamorphic variants -------------------------------------------------------------------------
        mrng = random.Random(case.get("mseed", 0))
        e2 = copy.deepcopy(export)
        for s in e2["Sessions"]:
            for k in ("Original", "Modified"):
                if k in s:
                    for con in block_contests(s[k]):
                        mrng.shuffle(con["Marks"])
        variants = [("marks_shuffled", e2, {}), ("sorted_keys", export, {"sort_keys": True})]
        e3 = copy.deepcopy(export)
        for s in e3["Sessions"]:
            if "Modified" in s and "Original" in s:
                m, o = s.pop("Modified"), s.pop("Original")
                s["Modified"], s["Original"] = m, o
        variants.append(("modified_first", e3, {}))
        for name, ex, kw in variants:
            ok, c2 = read(ex, **kw)
            if not ok:
                return
            rec.count(f"meta:{name}")
            if as_list(c2) != got:
                b2 = diff(as_list(c2), got)
                rec.violation("c19.meta", f"result_changes_when_{name}", {"first_difference": b2})
                return
    finally:
        shutil.rmtree(d, ignore_errors=True)
