"""C14 — RAIRE and the audit interpret every ranked ballot identically.

  c14.assort   EXHAUSTIVE for n <= 6 candidates: every partial ranking (every length, every
               order) x every ordered (winner, loser) pair x every eliminated set not containing them.  Audit side: the
               assorter built by the real Assertion.make_assertions_from_json from the JSON the RAIRE documentation
               specifies, applied to a CVR with 1-based ranks.  Generator side: the real NEBAssertion / NENAssertion
               verdicts (0-based positions).  Required: assort == (w - l + 1)/2.
  c14.readers  random RAIRE-format files read by CVR.from_raire_file and raire_utils.load_contests_from_raire:
               audit rank == generator index + 1 for every (ballot, contest, candidate), same sets of ranked candidates.
  c14.reapply  every assertion returned by the real compute_raire_assertions reproduces votes_for_winner / votes_for_loser
               when its own is_vote_for_winner / is_vote_for_loser are summed over the CVRs.
"""
import itertools
import os
import random
import shutil

from checks import raire_common as rc
from vlib import env

RULE = ("exhaustive enumeration of (ballot, assertion) pairs for each candidate count (a 'case' = one candidate count's "
        "complete table; two thirds of the ballots sit on one long-lived record), plus seeded random RAIRE files (a quarter "
        "with non-ASCII names) and RAIRE runs; non-trivial = the ballot ranks at least one of "
        "the assertion's two candidates; distinct = (n, ballot, assertion) / hash of file / hash of profile")
REQUIRED = ["assort_pairs_compared", "assort_pairs_nontrivial", "exhaustive_tables", "reader_entries_compared",
            "reader_files", "reapplied_NEB", "reapplied_NEN", "ballots_lacking_contest_compared", "ballots_on_a_reused_record", "reader_files_with_non_ascii_names",
            "contest_identifier_is_not_a_string", "ballot_mappings_not_stored_in_preference_order",
            "ballots_listing_unranked_candidates_with_rank_0", "assorter_means_compared_with_generator_tallies",
            "assorter_means_compared:some_cards_lack_the_contest",
            "reader_files_where_a_candidate_shares_its_name_with_the_contest_or_ballot", "reader_files_larger_than_4_MiB",
            "reader_files_without_a_final_line_break",
            "contests_with_eleven_candidates_and_two_digit_rank_numbers",
            "reader_files_with_a_row_whose_first_rank_field_is_blank",
            "reader_files_declaring_ten_or_more_contests"]
ASSUMPTIONS = ["rankings are duplicate-free (the property's quantifier)", "candidate ids are strings in both readers",
               "JSON mapping per the RAIRE documentation: WINNER_ONLY <-> NEB, IRV_ELIMINATION + already_eliminated <-> NEN"]
EXHAUSTIVE = "c14.assort enumerates every partial ranking x ordered pair x eliminated set for each n listed in the counters"
N_CASES = {"quick": {"files": 1600, "raire": 16000, "nmax": 6}, "thorough": {"files": 8000, "raire": 160000, "nmax": 6}}


def plan(tier, seed):
    b = N_CASES[tier]
    shards = 16
    out = [{"kind": "mixed", "files": b["files"] // shards, "raire": b["raire"] // shards, "shard": i} for i in range(shards)]
    for n in range(2, b["nmax"] + 1):
        out.append({"kind": "exhaustive", "n": n, "shard": 100 + n})
    # one export of realistic size (the shipped examples are 1-3.5 MB; a county is larger): > 4 MiB
    out.append({"kind": "bigfile", "shard": 200})
    return out


def run_shard(spec, rec):
    if spec["kind"] == "exhaustive":
        run_case({"kind": "exhaustive", "n": spec["n"]}, rec)
        return
    if spec["kind"] == "bigfile":
        run_case({"kind": "file", "fseed": 1000 + spec["seed"], "big": True}, rec)
        return
    rng = random.Random(f"c14-{spec['seed']}-{spec['shard']}")
    for _ in range(spec["files"]):
        run_case({"kind": "file", "fseed": rng.randrange(10 ** 9)}, rec)
    for _ in range(10 if spec["tier"] == "quick" else 40):
        case = rc.gen_eleven(rng)
        case["kind"] = "reapply"
        rec.count("contests_with_eleven_candidates_and_two_digit_rank_numbers")
        run_case(case, rec)
    for _ in range(spec["raire"]):
        case = rc.gen_case(rng, n=rc.pick_n(rng, spec["tier"]))
        case["kind"] = "reapply"
        run_case(case, rec)


def all_partial_rankings(cands):
    for k in range(len(cands) + 1):
        for p in itertools.permutations(cands, k):
            yield p


def run_case(case, rec):
    kind = case["kind"]
    if kind == "exhaustive":
        return run_exhaustive(case, rec)
    if kind == "file":
        return run_file(case, rec)
    return run_reapply(case, rec)


def run_exhaustive(case, rec):
    from shangrla.core.Audit import Assertion, Audit, Contest, CVR
    from shangrla.core.NonnegMean import NonnegMean
    from shangrla.raire.raire_utils import NEBAssertion, NENAssertion
    n = case["n"]
    # identifiers that are substrings / prefixes of one another, as in real data ("4" and "47")
    cands = ["4", "47", "7", "74", "1", "10"][:n]
    cname = "339"
    con = Contest.from_dict({"id": cname, "name": cname, "risk_limit": 0.05, "cards": 1000,
                             "choice_function": Contest.SOCIAL_CHOICE_FUNCTION.IRV, "n_winners": 1, "candidates": cands,
                             "winner": [cands[0]], "audit_type": Audit.AUDIT_TYPE.CARD_COMPARISON,
                             "test": NonnegMean.alpha_mart, "estim": NonnegMean.optimal_comparison, "use_style": True})
    js, gens = [], {}
    for w, l in itertools.permutations(cands, 2):
        js.append({"assertion_type": "WINNER_ONLY", "winner": w, "loser": l, "already_eliminated": ""})
        gens[w + " v " + l] = NEBAssertion(cname, w, l)
        rest = [c for c in cands if c not in (w, l)]
        for r in range(len(rest) + 1):
            for E in itertools.combinations(rest, r):
                js.append({"assertion_type": "IRV_ELIMINATION", "winner": w, "loser": l, "already_eliminated": list(E)})
                gens[w + " v " + l + " elim " + " ".join(E)] = NENAssertion(cname, w, l, list(E))
    ok, asns = rec.guard("c14.call:make_assertions_from_json", Assertion.make_assertions_from_json, contest=con,
                         candidates=cands, json_assertions=js, test=NonnegMean.alpha_mart, estim=NonnegMean.optimal_comparison)
    if not ok:
        return
    if set(asns) != set(gens):
        rec.violation("c14.assort", "assertion_keys_differ", {"missing": sorted(set(gens) - set(asns))[:5],
                                                               "extra": sorted(set(asns) - set(gens))[:5]})
        return
    rec.count("exhaustive_tables")
    rec.count(f"exhaustive_n:{n}")
    ballots = list(all_partial_rankings(cands)) + [None]
    live = CVR(id="x", votes={})   # one long-lived record whose ranking is replaced in place (a corrected / merged record)
    for bi, b in enumerate(ballots):
        if b is None:
            audit_cvr = CVR(id="x", votes={"other": {"1": 1}})
            gen_cvr = {"other": {"1": 0}}
            rec.count("ballots_lacking_contest_compared")
        else:
            ranks = {c: k + 1 for k, c in enumerate(b)}
            # the dict may be stored in any order (Dominion files, from_dict, update_votes): preference order, candidate
            # order, reversed - the ranks are what counts
            order_mode = len(b) % 3
            keys = list(b) if order_mode == 0 else [c for c in cands if c in ranks] if order_mode == 1 else list(reversed(b))
            avotes = {c: ranks[c] for c in keys}
            if bi % 5 >= 3:
                # candidates the voter did not rank may be listed with rank 0 (the CVR convention for "unranked", and what
                # the Dominion reader stores): same ballot
                for c in (cands if bi % 5 == 3 else reversed(cands)):
                    avotes.setdefault(c, 0)
                rec.count("ballots_listing_unranked_candidates_with_rank_0")
            audit_cvr = CVR(id="x", votes={cname: avotes})
            if bi % 3 == 1:
                live.votes = audit_cvr.votes
                audit_cvr = live
                rec.count("ballots_on_a_reused_record")
            elif bi % 3 == 2:
                ok, merged = rec.guard("c14.call:merge_cvrs", CVR.merge_cvrs, [live, audit_cvr])
                if not ok:
                    return
                audit_cvr = merged[0]
                rec.count("ballots_on_a_reused_record")
            gen_cvr = {cname: {c: k for k, c in enumerate(b)}}
        for key, a in asns.items():
            g = gens[key]
            ok, val = rec.guard("c14.call:assort", a.assorter.assort, audit_cvr)
            if not ok:
                return
            w, l = g.is_vote_for_winner(gen_cvr), g.is_vote_for_loser(gen_cvr)
            rec.case({"n": n, "ballot": b, "assertion": key}, nontrivial=(b is not None and (g.winner in b or g.loser in b)))
            rec.count("assort_pairs_compared")
            if b is not None and (g.winner in b or g.loser in b):
                rec.count("assort_pairs_nontrivial")
            if val != (w - l + 1) / 2:
                kindname = "NEB" if isinstance(g, NEBAssertion) else "NEN"
                rec.violation("c14.assort", f"{kindname}:audit_and_generator_disagree",
                              {"ballot": b, "assertion": key, "audit_assort": val, "generator_w": w, "generator_l": l},
                              case={"kind": "exhaustive", "n": n})
                return


def gen_file(rng):
    ncon = rng.randint(1, 3) if rng.random() < 0.93 else rng.choice((10, 12, 21))   # (a county-wide file: the count has two digits)
    cons = [str(300 + j) for j in range(ncon)]
    cands = {c: [str(rng.randint(1, 9) * 10 + k) for k in range(rng.randint(2, 5))] for c in cons}
    if rng.random() < 0.25:
        # candidate identifiers are arbitrary text: names outside ASCII (the file is UTF-8)
        names = ["José", "Zoë", "Ñu", "Łukasz", "Åsa", "李"]
        cands = {c: [names[(j + k) % len(names)] + (str(k) if k >= len(names) else "") for k in range(len(v))]
                 for j, (c, v) in enumerate(cands.items())}
    small = rng.random() < 0.2
    if small:
        # contests, candidates and ballots each numbered from 1: one token names a contest, a candidate and a ballot
        cons = [str(j + 1) for j in range(ncon)]
        cands = {c: [str(k + 1) for k in range(rng.randint(2, 5))] for c in cons}
    lines = [str(ncon)]
    for c in cons:
        listed = cands[c][:]
        rng.shuffle(listed)
        extra = []
        if rng.random() < 0.3:
            extra = ["informal", str(rng.randint(0, 5))]
        lines.append(",".join(["Contest", c, str(len(listed))] + listed + ["winner", listed[0]] + extra))
    nb = rng.randint(1, 14)
    body = []
    for j in range(nb):
        bid = str(j + 1) if small else f"99808_{rng.randint(1, 3)}_{j}"
        for c in rng.sample(cons, rng.randint(1, ncon)):
            k = rng.randint(0, len(cands[c]))
            body.append(",".join([c, bid] + rng.sample(cands[c], k)))
    if body and rng.random() < 0.4:
        # the same (ballot, contest) a second time, ranking fewer / other candidates: the later row wins in both readers
        for _ in range(rng.randint(1, 3)):
            c, bid = rng.choice(body).split(",")[:2]
            body.append(",".join([c, bid] + rng.sample(cands[c], rng.randint(0, len(cands[c])))))
    if body and rng.random() < 0.15:
        # a row whose FIRST rank field is blank (the voter left the first column empty; exported as an empty field): the
        # candidates that follow are second, third ... on that ballot - for both readers
        j = rng.randrange(len(body))
        t = body[j].split(",")
        if len(t) >= 3:
            body[j] = ",".join(t[:2] + [""] + t[2:])
    if rng.random() < 0.5:
        rng.shuffle(body)
    return lines + body, cands


def run_file(case, rec):
    from shangrla.core.Audit import CVR
    from shangrla.raire.raire_utils import load_contests_from_raire
    rng = random.Random(case["fseed"])
    lines, cands = gen_file(rng)
    if case.get("big"):
        # the same kind of file with ~150 000 ballot lines (about 6 MB)
        cons = list(cands)
        head = lines[: 1 + len(cons)]
        body = []
        for j in range(150000):
            c = cons[j % len(cons)]
            k = 1 + (j * 7) % len(cands[c])
            start = (j * 3) % len(cands[c])
            prefs = [cands[c][(start + q) % len(cands[c])] for q in range(k)]
            body.append(",".join([c, f"precinct-{j % 977:04d}-card-{j // 3:06d}"] + prefs))
        lines = head + body
        rec.count("reader_files_larger_than_4_MiB")
    rec.case(case, nontrivial=True, sample={"lines": lines[:8], "n_lines": len(lines)})
    d = env.scratch_dir("c14")
    try:
        path = os.path.join(d, "t.raire")
        with open(path, "w", encoding="utf-8") as f:
            # (a quarter of the files end without a final line break: the last ballot line is a line all the same)
            no_eol = (len(lines) * 7 + len(lines[-1])) % 4 == 0
            f.write("\n".join(lines) + ("" if no_eol else "\n"))
        if no_eol:
            rec.count("reader_files_without_a_final_line_break")
        if int(lines[0]) >= 10:
            rec.count("reader_files_declaring_ten_or_more_contests")
        if any(",," in ln for ln in lines[1 + int(lines[0]):]):
            rec.count("reader_files_with_a_row_whose_first_rank_field_is_blank")
        if any(ord(ch) > 127 for ln in lines for ch in ln):
            rec.count("reader_files_with_non_ascii_names")
        if any(t[0] in t[2:] or t[1] in t[2:] for t in (ln.split(",") for ln in lines[1 + int(lines[0]):])):
            rec.count("reader_files_where_a_candidate_shares_its_name_with_the_contest_or_ballot")
        ok1, r1 = rec.guard("c14.call:from_raire_file", CVR.from_raire_file, path)
        ok2, r2 = rec.guard("c14.call:load_contests_from_raire", load_contests_from_raire, path)
    finally:
        shutil.rmtree(d, ignore_errors=True)
    if not (ok1 and ok2):
        return
    rec.count("reader_files")
    audit = {c.id: c.votes for c in r1[0]}
    gen = r2[1]
    if set(audit) != set(gen):
        rec.violation("c14.readers", "ballot_ids_differ", {"audit_only": sorted(set(audit) - set(gen))[:4],
                                                            "generator_only": sorted(set(gen) - set(audit))[:4]})
        return
    for bid in gen:
        if set(audit[bid]) != set(gen[bid]):
            rec.violation("c14.readers", "contests_of_a_ballot_differ", {"ballot": bid, "audit": sorted(audit[bid]),
                                                                          "generator": sorted(gen[bid])})
            return
        for con in gen[bid]:
            rec.count("reader_entries_compared")
            a, g = audit[bid][con], gen[bid][con]
            # the preference order is over the contest's CANDIDATES: a token that names no candidate (a blank field, a
            # write-in the contest does not list) holds a position on the row but is nobody's preference
            a = {c: k for c, k in a.items() if c in cands.get(con, ())}
            g = {c: k for c, k in g.items() if c in cands.get(con, ())}
            if set(a) != set(g) or any(a[c] != g[c] + 1 for c in g):
                rec.violation("c14.readers", "preference_orders_differ", {"ballot": bid, "contest": con, "audit": a,
                                                                           "generator": g})
                return
    # contest metadata read by the generator side: candidates as listed
    for con in r2[0]:
        if sorted(con.candidates) != sorted(cands[con.name]):
            rec.violation("c14.readers", "contest_candidates_differ", {"contest": con.name, "got": con.candidates})
            return


def run_reapply(case, rec):
    r = rc.run_raire(case, rec, "c14.call:compute_raire_assertions")
    if r is None:
        rec.case(case, nontrivial=False)
        return
    res = [a for a in r["result"] if rc.key_of(a, r["NEB"], r["NEN"]) is not None]
    rec.case(case, nontrivial=bool(res), sample={k: case[k] for k in ("cands", "winner", "asn")} | {"n_ballots": len(case["ballots"])})
    for a in res:
        k = rc.key_of(a, r["NEB"], r["NEN"])
        ok, tw = rec.guard("c14.call:is_vote_for_winner", lambda: sum(a.is_vote_for_winner(c) for c in r["cvrs"].values()))
        ok2, tl = rec.guard("c14.call:is_vote_for_loser", lambda: sum(a.is_vote_for_loser(c) for c in r["cvrs"].values()))
        if not (ok and ok2):
            return
        rec.count("reapplied_NEB" if k[0] == "NEB" else "reapplied_NEN")
        if (tw, tl) != (a.votes_for_winner, a.votes_for_loser):
            rec.violation("c14.reapply", f"{k[0]}:reapplied_tallies_differ_from_reported",
                          {"assertion": str(k), "reported": [a.votes_for_winner, a.votes_for_loser], "reapplied": [tw, tl],
                           "contest_field_type": type(a.contest).__name__})
            return
    # the audit's side of the same election: the assorter MEAN over the cards that carry the contest (style) is above 1/2
    # exactly when the generator's tally comparison holds - for the returned assertions and for a few arbitrary ones
    # (true or false), on CVR lists in which some cards lack the contest
    import random as _r
    from shangrla.core.Audit import Assertion, Audit, Contest, CVR
    from shangrla.core.NonnegMean import NonnegMean
    prng = _r.Random(len(case["ballots"]) * 131 + len(case["cands"]))
    cands, cname = [str(c) for c in case["cands"]], "339"
    gen_cvrs = {bid: ({cname: v[r["cname"]]} if r["cname"] in v else v) for bid, v in r["cvrs"].items()}
    audit_cvrs = [CVR(id=bid, votes=({cname: {c: k + 1 for c, k in v[cname].items()}} if cname in v else {"other": {"Z": 1}}))
                  for bid, v in gen_cvrs.items()]
    n_c = sum(1 for c in audit_cvrs if c.has_contest(cname))
    if n_c == 0 or len(cands) < 2:
        return
    todo = [rc.key_of(a, r["NEB"], r["NEN"]) for a in res][:4]
    for _ in range(3):
        w, l = prng.sample(cands, 2)
        rest = [c for c in cands if c not in (w, l)]
        todo.append(("NEB", w, l) if prng.random() < 0.5 else ("NEN", w, l, frozenset(prng.sample(rest, prng.randint(0, len(rest))))))
    con = Contest.from_dict({"id": cname, "name": cname, "risk_limit": 0.05, "cards": max(n_c, 1),
                             "choice_function": Contest.SOCIAL_CHOICE_FUNCTION.IRV, "n_winners": 1, "candidates": cands,
                             "winner": [str(case["winner"])], "audit_type": Audit.AUDIT_TYPE.CARD_COMPARISON,
                             "test": NonnegMean.alpha_mart, "estim": NonnegMean.optimal_comparison, "use_style": True})
    js = [({"assertion_type": "WINNER_ONLY", "winner": str(k[1]), "loser": str(k[2]), "already_eliminated": ""} if k[0] == "NEB" else
           {"assertion_type": "IRV_ELIMINATION", "winner": str(k[1]), "loser": str(k[2]), "already_eliminated": sorted(str(e) for e in k[3])})
          for k in todo]
    ok, asns = rec.guard("c14.call:make_assertions_from_json", Assertion.make_assertions_from_json, contest=con, candidates=cands,
                         json_assertions=js, test=NonnegMean.alpha_mart, estim=NonnegMean.optimal_comparison)
    if not ok:
        return
    for k in todo:
        g = r["NEB"](cname, k[1], k[2]) if k[0] == "NEB" else r["NEN"](cname, k[1], k[2], list(k[3]))
        tw = sum(g.is_vote_for_winner(c) for c in gen_cvrs.values())
        tl = sum(g.is_vote_for_loser(c) for c in gen_cvrs.values())
        key = str(k[1]) + " v " + str(k[2]) + ("" if k[0] == "NEB" else " elim " + " ".join(sorted(str(e) for e in k[3])))
        a = asns.get(key)
        if a is None:
            continue
        ok, m = rec.guard("c14.call:mean", a.assorter.mean, audit_cvrs, True)
        if not ok:
            return
        rec.count("assorter_means_compared_with_generator_tallies")
        if len(audit_cvrs) > n_c:
            rec.count("assorter_means_compared:some_cards_lack_the_contest")
        want = (tw - tl + n_c) / (2 * n_c)
        if abs(float(m) - want) > 1e-12 or (float(m) > 0.5) != (tw > tl):
            rec.violation("c14.assort", f"{k[0]}:assorter_mean_disagrees_with_generator_tallies",
                          {"assertion": key, "mean": float(m), "expected": want, "winner_tally": tw, "loser_tally": tl,
                           "cards_with_contest": n_c, "cards": len(audit_cvrs)})
            return
