"""C20 — the elimination tree shows an unpruned leaf iff the assertions are insufficient.

Brute-force reference monitor on the tree returned by the real buildRemainingTreeAsLists(c, S, WOLosers, IRVElims):
  c20.leaves   the set of root-to-leaf paths ending in an untagged LeafNode, reversed, must EQUAL the set of complete
               elimination orders ending in the root that no assertion contradicts (stronger than the iff; localises);
  c20.tags     every pruned node is tagged with exactly the assertions that contradict it (compared by content);
  c20.marker   treeListToTuple(tree) contains the 'Unpruned leaf' marker iff an untagged leaf exists;
  c20.parse    parseAssertions on synthetic audit-log JSON: WINNER_ONLY -> (loser, winner, proved),
               IRV_ELIMINATION -> (winner, set(already_eliminated), proved).
"""
import contextlib
import io
import itertools
import random
import warnings

from checks import raire_common as rc
from vlib import irv

RULE = ("(candidate set, alternative winner, assertion set) triples: n = 2..5 (6 thorough); assertion sets empty / real "
        "RAIRE output / that output minus one / random / redundant / mutually inconsistent; every alternative winner; "
        "non-trivial = the tree has at least one pruned node and n >= 3; distinct = hash of the triple")
REQUIRED = ["trees_built", "trees_with_unpruned_leaf", "trees_fully_pruned", "pruned_nodes_tag_checked", "marker_checked",
            "parse_checked", "set:raire", "set:raire_minus_one", "set:random", "set:redundant", "set:inconsistent", "set:empty", "parse_multi_contest_logs",
            "rendered_tags_checked", "rendered_tags_checked:node_pruned_by_both_kinds",
            "parse_eliminated_set_names_an_id_outside_the_candidate_list", "eliminated_sets_given_as_frozensets",
            "sets_with_a_vacuous_assertion_whose_candidate_is_in_its_own_eliminated_set",
            "parse_logs_with_missing_or_short_assertion_json",
            "parse_winner_only_entry_with_an_empty_list_or_null_for_already_eliminated",
            "parse_candidate_manifest_omits_a_candidate_of_the_contest", "parse_contest_labelled_other_than_IRV",
            "printed_trees_compared_with_the_tree_of_the_full_set", "assertion_records_given_as_lists",
            "parse_elimination_record_whose_loser_is_in_its_eliminated_list",
            "parse_eliminated_list_naming_a_candidate_twice", "parse_tree_from_parsed_lists_compared"]
ASSUMPTIONS = ["tag comparison is by assertion content (the module identifies an assertion by list.index, which maps exact "
               "duplicates to one index)"]
N_CASES = {"quick": 128000, "thorough": 1024000}
SETS = ("raire", "raire_minus_one", "random", "redundant", "inconsistent", "empty", "random", "raire")


def plan(tier, seed):
    shards = 16
    return [{"n": N_CASES[tier] // shards, "shard": i} for i in range(shards)]


def random_tuples(rng, cands, k):
    wo, el = [], []
    for _ in range(k):
        if rng.random() < 0.5:
            l, w = rng.sample(cands, 2)
            wo.append([l, w, rng.random() < 0.5])
        else:
            c = rng.choice(cands)
            rest = [x for x in cands if x != c]
            E = rng.sample(rest, rng.randint(0, len(rest) - 1))
            if rng.random() < 0.15:
                E = E + [c]   # vacuous: "c is not eliminated next once E (which contains c) is gone" contradicts no order
            el.append([c, sorted(E), rng.random() < 0.5])
    return wo, el


def run_shard(spec, rec):
    rng = random.Random(f"c20-{spec['seed']}-{spec['shard']}")
    for i in range(spec["n"]):
        kind = SETS[i % len(SETS)]
        n = rng.choice((2, 3, 3, 4, 4, 5, 5)) if spec["tier"] == "quick" else rng.choice((2, 3, 4, 4, 5, 5, 6))
        if i % 16 == 15:
            run_case({"kind": "parse", "pseed": rng.randrange(10 ** 9), "n": n}, rec)
            continue
        cands = [chr(ord("A") + j) for j in range(n)]
        # identifiers whose concatenations are ambiguous ("1"+"12" == "11"+"2") in a third of the non-RAIRE cases
        idmap = None
        if kind not in ("raire", "raire_minus_one") and rng.random() < 0.5:
            cands = ["1", "2", "3", "11", "12", "21"][:n]
        wo, el = [], []
        winner = cands[0]
        if kind in ("raire", "raire_minus_one"):
            case0 = rc.gen_case(rng, n=n)
            cnt = irv.counter_of([tuple(b) if b is not None else None for b in case0["ballots"]])
            case0["winner"] = irv.irv_order(cands, cnt)[-1]
            case0["order"] = []
            r = rc.run_raire(case0, rec, "c20.call:compute_raire_assertions")
            winner = case0["winner"]
            if r is not None:
                for a in r["result"]:
                    k = rc.key_of(a, r["NEB"], r["NEN"])
                    if k is None:
                        continue
                    if k[0] == "NEB":
                        wo.append([k[2], k[1], rng.random() < 0.5])
                    else:
                        el.append([k[1], sorted(k[3]), rng.random() < 0.5])
            if kind == "raire_minus_one" and (wo or el):
                if wo and (not el or rng.random() < 0.5):
                    wo.pop(rng.randrange(len(wo)))
                else:
                    el.pop(rng.randrange(len(el)))
        elif kind == "random":
            wo, el = random_tuples(rng, cands, rng.randint(1, 3 * n))
        elif kind == "redundant":
            wo, el = random_tuples(rng, cands, rng.randint(1, 2 * n))
            flip = rng.random() < 0.6   # the same assertion listed twice, confirmed in one entry and not in the other
            wo = wo + [[t[0], t[1], (not t[2]) if flip else t[2]] for t in wo[: rng.randint(0, len(wo))]]
            el = el + [[t[0], list(t[1]), (not t[2]) if flip else t[2]] for t in el[: rng.randint(0, len(el))]]
        elif kind == "inconsistent":
            wo, el = random_tuples(rng, cands, rng.randint(0, n))
            a, b = rng.sample(cands, 2)
            wo += [[a, b, False], [b, a, True]]
        if kind in ("raire", "raire_minus_one") and rng.random() < 0.5:
            ren = dict(zip(cands, ["1", "2", "3", "11", "12", "21", "112"]))
            cands = [ren[c] for c in cands]
            winner = ren[winner]
            wo = [[ren[l], ren[w], p] for l, w, p in wo]
            el = [[ren[c], sorted(ren[e] for e in E_), p] for c, E_, p in el]
        roots = [c for c in cands if c != winner]
        run_case({"kind": "tree", "set": kind, "cands": cands, "winner": winner, "root": rng.choice(roots),
                  "WOLosers": wo, "IRVElims": el}, rec)


def contradicts_tuple(order, wo, el):
    """Does any assertion tuple contradict the elimination order (first eliminated ... winner)?"""
    pos = {c: i for i, c in enumerate(order)}
    for (l, w, _p) in wo:
        if w in pos and l in pos and pos[w] < pos[l]:
            return True
    for (c, E, _p) in el:
        k = len(E)
        if k < len(order) and frozenset(order[:k]) == frozenset(E) and order[k] == c:
            return True
    return False


def walk(tree, path, leaves, pruned):
    """Collect (path, LeafNode) for leaves; tree is [LeafNode] or [cand, [subtrees]]."""
    if len(tree) == 1:
        node = tree[0]
        (pruned if (node.NEBTagList or node.IRVTagList) else leaves).append((path + [node.cand], node))
        return
    for sub in tree[1]:
        walk(sub, path + [tree[0]], leaves, pruned)


def leaf_pairs(tree, tup):
    """(node, rendered tag) for every leaf, walking the list tree and its rendering side by side."""
    if len(tree) == 1:
        yield tree[0], (tup[1] if isinstance(tup, tuple) and len(tup) == 2 else None)
        return
    kids = tup[1:] if isinstance(tup, tuple) else ()
    if len(kids) != len(tree[1]):
        yield None, None
        return
    for br, tk in zip(tree[1], kids):
        yield from leaf_pairs(br, tk)


def parse_tag(tag):
    """'NEB 0,2\nConfirmed\nIRV 1\nUnconfirmed' -> {'NEB': ([0,2], True), 'IRV': ([1], False)}"""
    import re
    out = {}
    for kind, nums, conf in re.findall(r"(NEB|IRV) ([0-9,]+)\n(Confirmed|Unconfirmed)", tag or ""):
        out[kind] = ([int(v) for v in nums.split(",")], conf == "Confirmed")
    return out


def tuple_has_marker(t):
    if isinstance(t, tuple):
        return any(tuple_has_marker(x) for x in t)
    return isinstance(t, str) and "Unpruned leaf" in t


def run_case(case, rec):
    from shangrla.core import IRVVisualisationUtils as V
    if case["kind"] == "parse":
        return run_parse(case, rec, V)
    cands, root = case["cands"], case["root"]
    wo = [(l, w, bool(p)) for l, w, p in case["WOLosers"]]
    el = [(c, set(E), bool(p)) for c, E, p in case["IRVElims"]]
    if len(case["IRVElims"]) % 3 == 1:
        # records that went through a set() (de-duplication) hold their eliminated sets as frozensets: same sets
        el = [(c, frozenset(E), p) for c, E, p in el]
        rec.count("eliminated_sets_given_as_frozensets")
    if (len(cands) + len(wo) + 2 * len(el)) % 6 == 0:
        # records that went through a serialiser come back as LISTS [candidate, set, proved] / [loser, winner, proved]: the
        # same assertions
        el = [list(t) for t in el]
        wo = [list(t) for t in wo]
        rec.count("assertion_records_given_as_lists")
    if any(c in E for c, E, _p in el):
        rec.count("sets_with_a_vacuous_assertion_whose_candidate_is_in_its_own_eliminated_set")
    S = set(cands) - {root}
    sink = io.StringIO()
    with contextlib.redirect_stdout(sink), warnings.catch_warnings():
        warnings.simplefilter("ignore")
        ok, tree = rec.guard("c20.call:buildRemainingTreeAsLists", V.buildRemainingTreeAsLists, root, set(S), list(wo), list(el))
    if not ok:
        return
    leaves, pruned = [], []
    walk(tree, [], leaves, pruned)
    rec.case(case, nontrivial=(len(cands) >= 3 and bool(pruned)))
    rec.count("trees_built")
    rec.count(f"set:{case['set']}")
    got = set(tuple(reversed(p)) for p, _ in leaves)
    want = set(o for o in itertools.permutations(cands) if o[-1] == root and not contradicts_tuple(o, wo, el))
    rec.count("trees_with_unpruned_leaf" if want else "trees_fully_pruned")
    if any(len(p) != len(cands) for p, _ in leaves):
        rec.violation("c20.leaves", "untagged_leaf_before_all_candidates_placed", {"paths": [p for p, _ in leaves][:3]})
        return
    if got != want:
        mech = ("unpruned_leaf_although_every_order_contradicted" if got - want and not want else
                "no_unpruned_leaf_although_an_order_survives" if want - got and not got else
                "surviving_orders_differ")
        rec.violation("c20.leaves", mech, {"tree_only": sorted(got - want)[:3], "oracle_only": sorted(want - got)[:3],
                                           "WOLosers": case["WOLosers"], "IRVElims": case["IRVElims"], "root": root})
        return
    for path, node in pruned:
        placed = set(path)
        remaining = set(cands) - placed
        c = node.cand
        want_neb = set((l, w) for (l, w, _p) in wo if l == c and w in remaining)
        want_irv = set((cc, frozenset(E)) for (cc, E, _p) in el if cc == c and set(E) == remaining)
        if any(not (0 <= i < len(wo)) for i, _p in node.NEBTagList) or any(not (0 <= i < len(el)) for i, _p in node.IRVTagList):
            rec.violation("c20.tags", "tag_refers_to_no_assertion_of_the_given_set",
                          {"path_root_to_node": path, "neb_tags": list(node.NEBTagList), "irv_tags": list(node.IRVTagList),
                           "n_neb": len(wo), "n_irv": len(el)})
            return
        got_neb = set((wo[i][0], wo[i][1]) for i, _p in node.NEBTagList)
        got_irv = set((el[i][0], frozenset(el[i][1])) for i, _p in node.IRVTagList)
        rec.count("pruned_nodes_tag_checked")
        # by index as well: two entries that differ only in their proved flag are two assertions (both must be tagged);
        # exact duplicates are one assertion (the module identifies an assertion by list.index)
        want_neb_idx = set(wo.index(wo[i]) for i in range(len(wo)) if wo[i][0] == c and wo[i][1] in remaining)
        want_irv_idx = set(el.index(el[i]) for i in range(len(el)) if el[i][0] == c and set(el[i][1]) == remaining)
        got_neb_idx = set(i for i, _p in node.NEBTagList)
        got_irv_idx = set(i for i, _p in node.IRVTagList)
        if got_neb != want_neb or got_irv != want_irv or got_neb_idx != want_neb_idx or got_irv_idx != want_irv_idx:
            rec.violation("c20.tags", "pruned_node_tags_are_not_the_contradicting_assertions",
                          {"path_root_to_node": path, "got_neb": sorted(got_neb), "want_neb": sorted(want_neb),
                           "got_irv": [[a, sorted(b)] for a, b in got_irv], "want_irv": [[a, sorted(b)] for a, b in want_irv]})
            return
        for lst, src in ((node.NEBTagList, wo), (node.IRVTagList, el)):
            for i, p in lst:
                if bool(p) != bool(src[i][2]):
                    rec.violation("c20.tags", "proved_flag_not_carried", {"index": i, "got": p, "want": src[i][2]})
                    return
    with contextlib.redirect_stdout(sink), warnings.catch_warnings():
        warnings.simplefilter("ignore")
        ok, tup = rec.guard("c20.call:treeListToTuple", V.treeListToTuple, tree)
    if not ok:
        return
    rec.count("marker_checked")
    if tuple_has_marker(tup) != bool(leaves):
        rec.violation("c20.marker", "unpruned_leaf_marker_disagrees_with_tree", {"marker": tuple_has_marker(tup),
                                                                                 "untagged_leaves": len(leaves)})
        return
    # the rendering shows, for every pruned node, exactly the assertion numbers of its two tag lists and whether any of
    # each kind is confirmed (the lists themselves were compared with the reference above)
    for node, tag in leaf_pairs(tree, tup):
        if node is None:
            rec.violation("c20.marker", "rendered_tree_has_another_shape", {"rendered": repr(tup)[:300]})
            return
        if not (node.NEBTagList or node.IRVTagList):
            continue
        got = parse_tag(tag)
        want = {}
        if node.NEBTagList:
            want["NEB"] = ([i for i, _ in node.NEBTagList], any(p for _, p in node.NEBTagList))
        if node.IRVTagList:
            want["IRV"] = ([i for i, _ in node.IRVTagList], any(p for _, p in node.IRVTagList))
        rec.count("rendered_tags_checked")
        if len(want) == 2:
            rec.count("rendered_tags_checked:node_pruned_by_both_kinds")
        if got != want:
            rec.violation("c20.marker", "rendered_tag_does_not_show_the_nodes_assertions",
                          {"rendered": tag, "NEB": want.get("NEB"), "IRV": want.get("IRV")})
            return
    if (len(cands) * 5 + len(wo) * 3 + len(el)) % 8 == 0 and len(cands) <= 5:
        # the trees as the notebook draws them (buildPrintedResults: one tree per reported loser, the assertions numbered as
        # printAssertions lists them, i.e. by their position in the FULL lists): every tree it builds must be the tree of
        # the full assertion set - observed by wrapping the tree builder while buildPrintedResults runs
        seen, orig, depth = [], V.buildRemainingTreeAsLists, [0]

        def spy(c_, S_, W_, I_):      # (the builder recurses through the module global: only top-level calls are recorded)
            depth[0] += 1
            try:
                out = orig(c_, S_, W_, I_)
            finally:
                depth[0] -= 1
            if depth[0] == 0:
                seen.append((c_, out))
            return out
        V.buildRemainingTreeAsLists = spy
        try:
            with contextlib.redirect_stdout(sink), warnings.catch_warnings():
                warnings.simplefilter("ignore")
                winner0 = cands[0]
                okp, _ = rec.guard("c20.call:buildPrintedResults", V.buildPrintedResults, winner0,
                                   [(c_, f"cand {c_}") for c_ in cands[1:]], list(wo), list(el))
        finally:
            V.buildRemainingTreeAsLists = orig
        if not okp:
            return
        rec.count("printed_results_built")
        if sorted(str(c_) for c_, _ in seen) != sorted(str(c_) for c_ in cands[1:]):
            rec.violation("c20.tags", "printed_results_do_not_hold_one_tree_per_reported_loser", {"roots": [c_ for c_, _ in seen]})
            return
        for c_, t_ in seen:
            okd, direct = rec.guard("c20.call:buildRemainingTreeAsLists", orig, c_, set(cands) - {c_}, list(wo), list(el))
            if not okd:
                return
            a_l, a_p, b_l, b_p = [], [], [], []
            walk(t_, [], a_l, a_p)
            walk(direct, [], b_l, b_p)
            sig = lambda L: sorted((tuple(p_), tuple(n_.NEBTagList), tuple(n_.IRVTagList)) for p_, n_ in L)
            rec.count("printed_trees_compared_with_the_tree_of_the_full_set")
            if sig(a_l) != sig(b_l) or sig(a_p) != sig(b_p):
                rec.violation("c20.tags", "printed_tree_is_not_the_tree_of_the_full_assertion_set",
                              {"root": c_, "printed": [list(map(str, x)) for x in sig(a_p)][:4], "full_set": [list(map(str, x)) for x in sig(b_p)][:4]})
                return


def run_parse(case, rec, V):
    rng = random.Random(case["pseed"])
    n = max(3, case["n"])
    cands = [str(20 + j) for j in range(n)]
    winner = cands[0]
    ajson, adict, want_wo, want_el = [], {}, [], []
    for j in range(rng.randint(1, 8)):
        proved = rng.random() < 0.5
        if rng.random() < 0.5:
            w, l = rng.sample(cands, 2)
            # the empty "already eliminated" entry of a not-eliminated-before assertion, as different writers serialise it
            empty = rng.choice(("", "", "", [], None))
            if empty != "":
                rec.count("parse_winner_only_entry_with_an_empty_list_or_null_for_already_eliminated")
            ajson.append({"assertion_type": "WINNER_ONLY", "winner": w, "loser": l, "already_eliminated": empty})
            adict[f"a{j}"] = {"winner": w, "loser": l, "proved": proved}
            want_wo.append((l, w, proved))
        else:
            w, l = rng.sample(cands, 2)
            rest = [c for c in cands if c not in (w, l)]
            E = rng.sample(rest, rng.randint(0, len(rest)))
            if rng.random() < 0.25:
                # an id that is not on the contest's candidate list (a write-in, as in the shipped example log): the
                # assertion says what it says
                E = E + [rng.choice(("45", "W/I"))]
                rec.count("parse_eliminated_set_names_an_id_outside_the_candidate_list")
            if E and rng.random() < 0.1:
                # an eliminated list that names a candidate twice (two sources concatenated): a set all the same
                E = E + [rng.choice(E)]
                rec.count("parse_eliminated_list_naming_a_candidate_twice")
            if rng.random() < 0.1:
                # a record whose "loser" field names a candidate of its own eliminated list (another writer's idea of what
                # "loser" means there): the assertion is about the winner and the eliminated set, which is what it says
                E = E + [l]
                rec.count("parse_elimination_record_whose_loser_is_in_its_eliminated_list")
            ajson.append({"assertion_type": "IRV_ELIMINATION", "winner": w, "loser": l, "already_eliminated": E})
            adict[f"a{j}"] = {"winner": w, "loser": l, "proved": proved}
            want_el.append((w, set(E), proved))
    label = rng.choice(("IRV", "IRV", "IRV", "IRV", "irv", "STV", "Instant-runoff voting"))   # (the label is the log writer's)
    if label != "IRV":
        rec.count("parse_contest_labelled_other_than_IRV")
    contests = {"7": {"choice_function": label, "n_winners": 1, "winner": [winner], "candidates": list(cands),
                      "assertions": adict, "assertion_json": ajson}}
    if rng.random() < 0.25 and len(ajson) >= 2:
        # logs whose "assertion_json" section is missing (the documented fall-back for audits that write none) or shorter
        # than "assertions": every assertion without a detail entry is read from its winner/loser fields as
        # "loser is not eliminated before winner"
        keep = rng.choice((0, 0, 1, len(ajson) - 1))
        if keep == 0 and rng.random() < 0.5:
            del contests["7"]["assertion_json"]
        else:
            contests["7"]["assertion_json"] = ajson[:keep]
        want_wo, want_el = [], []
        for idx, (js, a) in enumerate(zip(ajson, adict.values())):
            if idx < keep and js["assertion_type"] == "IRV_ELIMINATION":
                want_el.append((js["winner"], set(js["already_eliminated"]), a["proved"]))
            else:
                want_wo.append((a["loser"], a["winner"], a["proved"]))
        rec.count("parse_logs_with_missing_or_short_assertion_json")
    contest_id = None
    extra = rng.choice((0, 0, 1, 2))
    for e in range(extra):
        # other contests in the same log, before and after the one that is drawn: a plurality contest (no assertion_json)
        # or another IRV contest with its own assertions
        cid = str(rng.choice((3, 5, 9, 12, 40)) + e)
        if cid in contests:
            continue
        if rng.random() < 0.5:
            contests[cid] = {"choice_function": "PLURALITY", "n_winners": 1, "winner": ["90"], "candidates": ["90", "91"],
                             "assertions": {"90 v 91": {"winner": "90", "loser": "91", "proved": True}}}
        else:
            contests[cid] = {"choice_function": "IRV", "n_winners": 1, "winner": ["80"], "candidates": ["80", "81", "82"],
                             "assertions": {"x": {"winner": "80", "loser": "81", "proved": False}},
                             "assertion_json": [{"assertion_type": "IRV_ELIMINATION", "winner": "80", "loser": "81",
                                                 "already_eliminated": ["82"]}]}
    if extra:
        rec.count("parse_multi_contest_logs")
        order = list(contests)
        rng.shuffle(order)
        contests = {k: contests[k] for k in order}
        contest_id = "7"
    audit = {"Audit": {"seed": 1234}, "contests": contests}
    candfile = {"List": [{"Id": int(c), "Description": f"cand {c}"} for c in cands]}
    if rng.random() < 0.2:
        # the candidate manifest omits one of the contest's candidates (a qualified write-in added to the contest after
        # the manifest was exported): the candidate is still a candidate - an alternative winner to be excluded
        del candfile["List"][rng.randrange(1, len(cands))]
        rec.count("parse_candidate_manifest_omits_a_candidate_of_the_contest")
    rec.case(case, nontrivial=True, sample={"assertion_json": ajson[:3], "contests_in_log": list(contests)})
    sink = io.StringIO()
    with contextlib.redirect_stdout(sink), warnings.catch_warnings():
        warnings.simplefilter("ignore")
        ok, res = rec.guard("c20.call:parseAssertions", V.parseAssertions, audit, candfile, contest_id)
    if not ok:
        return
    rec.count("parse_checked")
    (aw, _awn), nonw, wo, el = res
    if aw != winner or [x[0] for x in nonw] != cands[1:]:
        rec.violation("c20.parse", "winner_or_non_winners_wrong", {"winner": aw, "non_winners": nonw})
        return
    if [tuple(t) for t in wo] != want_wo:
        rec.violation("c20.parse", "winner_only_translation_wrong", {"got": wo, "want": want_wo})
        return
    if [(a, set(b), c) for a, b, c in el] != want_el:
        rec.violation("c20.parse", "irv_elimination_translation_wrong", {"got": [[a, sorted(b), c] for a, b, c in el],
                                                                         "want": [[a, sorted(b), c] for a, b, c in want_el]})
        return
    if len(cands) <= 5:
        # what is parsed is what the trees are built from: the tree for one alternative winner built from the PARSED lists
        # must be the tree built from the same assertions written down directly (sets as sets)
        root = cands[1 + (len(ajson) % (len(cands) - 1))]
        with contextlib.redirect_stdout(sink), warnings.catch_warnings():
            warnings.simplefilter("ignore")
            ok1, t1 = rec.guard("c20.call:buildRemainingTreeAsLists", V.buildRemainingTreeAsLists, root, set(cands) - {root}, list(wo), list(el))
            ok2, t2 = rec.guard("c20.call:buildRemainingTreeAsLists", V.buildRemainingTreeAsLists, root, set(cands) - {root},
                                [tuple(t) for t in want_wo], [(a, set(b), c) for a, b, c in want_el])
        if not (ok1 and ok2):
            return
        a_l, a_p, b_l, b_p = [], [], [], []
        walk(t1, [], a_l, a_p)
        walk(t2, [], b_l, b_p)
        sig = lambda L: sorted((tuple(p_), tuple(n_.NEBTagList), tuple(n_.IRVTagList)) for p_, n_ in L)
        rec.count("parse_tree_from_parsed_lists_compared")
        if sig(a_l) != sig(b_l) or sig(a_p) != sig(b_p):
            rec.violation("c20.parse", "tree_built_from_the_parsed_lists_differs_from_the_tree_of_the_same_assertions",
                          {"root": root, "parsed_unpruned": len(a_l), "direct_unpruned": len(b_l), "assertion_json": ajson[:6]})
