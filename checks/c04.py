"""C04 — RAIRE assertions, if any, are true of the CVRs and exclude every other winner.

Brute-force reference monitor on the list returned by the real compute_raire_assertions:
  c04.true        every returned assertion recounts (from the raw rankings, by the definitions in vlib/irv.py) to exactly
                  the winner and loser tallies it reports, the winner's strictly larger;
  c04.sufficient  every one of the n! - (n-1)! complete elimination orders ending in another candidate is contradicted
                  by some returned assertion;
  c04.empty       the list is empty exactly when even the set of ALL true NEB/NEN assertions leaves some alternative
                  order uncontradicted (in particular when the reported winner is wrong or not unique).
"""
import random

from checks import raire_common as rc
from vlib import irv

RULE = ("seeded random + structured ballot profiles (partial rankings of every length, blanks, cards lacking the contest, "
        "ties at the first / last round, symmetric profiles), n = 2..7 candidates (8 in the thorough tier), reported "
        "winner right / runner-up / random, both difficulty functions, order hint none / true / wrong; non-trivial = "
        "n >= 3 and the audit is possible; distinct = hash of the case")
REQUIRED = ["contest_object_reused_after_other_cvrs", "ballot_mappings_not_stored_in_preference_order", "contest_identifier_is_not_a_string", "runs_with_a_positive_allowed_gap", "contest_object_stores_another_winner_than_the_argument", "profiles_run", "auditable", "not_auditable", "assertions_recounted", "orders_checked", "wrong_winner_cases",
            "n_candidates:2", "n_candidates:3", "n_candidates:4", "n_candidates:5", "n_candidates:6", "returned_NEB", "returned_NEN"]
ASSUMPTIONS = ["the oracle quantifies over exactly the assertion family RAIRE uses (NEB, NEN with any eliminated set)",
               "ties are legitimate inputs"]
N_CASES = {"quick": 48000, "thorough": 600000}
SHARD_TIMEOUT = {"quick": 1500, "thorough": 14000}


def plan(tier, seed):
    shards = 16
    return [{"n": N_CASES[tier] // shards, "shard": i, "n_max": 5 if tier == "quick" else 6} for i in range(shards)]


def run_shard(spec, rec):
    rng = random.Random(f"c04-{spec['seed']}-{spec['shard']}")
    for i in range(spec["n"]):
        case = rc.gen_case(rng, n=rc.pick_n(rng, spec["tier"]))
        # the allowed gap between the search's bounds (an early-stopping tolerance): truth, tallies and sufficiency of
        # the returned set are demanded whatever it is (only optimality, C15, is stated for gap 0)
        case["agap"] = rng.choice((0, 0, 0, 0.5, 2.0, 10.0))
        run_case(case, rec)


def run_case(case, rec):
    r = rc.run_raire(case, rec, "c04.call:compute_raire_assertions")
    cands, winner = case["cands"], case["winner"]
    if r is None:
        rec.case(case, nontrivial=False)
        return
    rec.count("profiles_run")
    rec.count(f"n_candidates:{len(cands)}")
    true_all = irv.all_true_assertions(cands, r["counter"], r["tot"], r["asn_func"])
    dstar, wit = irv.minmax_difficulty(cands, winner, true_all)
    auditable = dstar < float("inf")
    rec.case(case, nontrivial=(len(cands) >= 3 and auditable),
             sample={k: case[k] for k in ("cands", "winner", "asn", "order")} | {"ballots": case["ballots"][:8], "n_ballots": len(case["ballots"])})
    rec.count("auditable" if auditable else "not_auditable")
    true_winner_unique = None
    res = r["result"]
    if not isinstance(res, list):
        rec.violation("c04.true", "result_not_a_list", {"type": type(res).__name__})
        return
    keys = []
    for a in res:
        k = rc.key_of(a, r["NEB"], r["NEN"])
        if k is None:
            rec.violation("c04.empty" if not auditable else "c04.true", "non_assertion_in_result", {"item": repr(a)[:80], "auditable": auditable})
            return
        keys.append(k)
        rec.count("returned_NEB" if k[0] == "NEB" else "returned_NEN")
        if k[0] == "NEN" and (k[1] in k[3] or k[2] in k[3]):
            rec.violation("c04.true", "nen_eliminates_its_own_candidates", {"assertion": str(k)})
            return
        tw, tl = (irv.neb_tallies(r["counter"], k[1], k[2]) if k[0] == "NEB" else irv.nen_tallies(r["counter"], k[1], k[2], k[3]))
        rec.count("assertions_recounted")
        if (a.votes_for_winner, a.votes_for_loser) != (tw, tl):
            rec.violation("c04.true", f"{k[0]}:reported_tallies_differ_from_recount",
                          {"assertion": str(k), "reported": [a.votes_for_winner, a.votes_for_loser], "recount": [tw, tl]})
            return
        if not tw > tl:
            rec.violation("c04.true", f"{k[0]}:assertion_false_on_the_cvrs", {"assertion": str(k), "recount": [tw, tl]})
            return
    if winner != irv.irv_order(cands, r["counter"])[-1]:
        rec.count("wrong_winner_cases")
    if keys:
        left = irv.uncontradicted_orders(cands, winner, keys)
        n_alt = sum(1 for _ in irv.alt_orders(cands, winner))
        rec.count("orders_checked", n_alt)
        if left:
            rec.violation("c04.sufficient", "alternative_order_not_contradicted",
                          {"order": list(left[0]), "n_uncontradicted": len(left), "assertions": [str(k) for k in keys]})
            return
        if not auditable:
            rec.violation("c04.empty", "nonempty_although_not_auditable", {"assertions": [str(k) for k in keys]})
    else:
        if auditable:
            rec.violation("c04.empty", "empty_although_auditable", {"min_max_difficulty": dstar})
