"""C03 — comparison audits test the right null hypothesis (overstatement reduction).

Reference-model monitor on whole populations of (CVR, MVR) pairs produced by the election simulator and pushed through
the library's own workflow (pool expansion, make_phantoms, make_all_assertions, set_all_margins_from_cvrs,
set_tally_pool_means):
  c03.identity      mean over all cards under audit of the REAL overstatement_assorter(mvr_i, cvr_i) minus 1/2 equals
                    (2 mean(A) - 1) / (2 (2u - v)), with v the REAL margin and A_i computed by the oracle from the manual
                    record (phantom -> 0; style and contest missing -> 0; else the reference assorter).
  c03.population    under style the cards the library audits for a contest (those whose CVR lists it after the library's
                    own pool expansion) are the reference population: own listing, or pooled in a batch where some card
                    lists it - for every pool label, also falsy ones (0, "").
  (diagnosis)       the CVR-side scores used by the library (overstatement + A_i) must sum to n (v+1)/2; this isolates
                    which side broke when the identity fails.
"""
import copy
import math
import random

import numpy as np

from vlib import election as E

RULE = ("simulated elections (3-60 cards, 1-4 contests: plurality incl. multi-winner, super-majority, IRV via JSON "
        "assertions; card comparison and ONEAudit; style on/off; pools; phantoms inside and outside pools; manual records "
        "with arbitrary discrepancies, missing contests, unfindable cards); one case = one election; non-trivial = some "
        "manual record differs from its CVR and the election has a phantom or a pooled card; distinct = hash of the spec")
REQUIRED = ["identities_checked", "assorter:plurality", "assorter:supermajority", "assorter:irv", "audit:CARD_COMPARISON",
            "audit:ONEAUDIT", "elections_with_phantoms", "elections_with_pooled_cards", "elections_with_pooled_phantoms",
            "elections_with_unfindable_cards", "elections_with_missing_contest_mvr", "style_on", "style_off",
            "identities_rechecked_after_cvrs_revised_in_place", "population_checked",
            "population_data_compared_with_per_card_values", "pool_dict_restricted_to_audited_contests",
            "null_mean_of_the_configured_test_checked", "elections_with_a_batch_holding_pooled_and_unpooled_cards",
            "audits_without_style_whose_contest_objects_do_not_carry_the_flag",
            "elections_where_cards_behind_phantom_cvrs_are_found"]
ASSUMPTIONS = ["add_pool_contests applied under style (documented precondition of ONEAudit); a batch label may be shared by "
               "pooled and unpooled cards: the batch mean is then over the flagged cards", "A_i is computed by reference assorters written from the definitions "
               "(cross-checked against the real assorters by C02 and C14)"]
N_CASES = {"quick": 25600, "thorough": 204800}


def plan(tier, seed):
    shards = 16
    return [{"n": N_CASES[tier] // shards, "shard": i} for i in range(shards)]


def run_shard(spec, rec):
    rng = random.Random(f"c03-{spec['seed']}-{spec['shard']}")
    for i in range(spec["n"]):
        es = E.gen_spec(rng, audit_types=("CARD_COMPARISON", "ONEAUDIT"))
        if i % 3 == 0:
            es["cvr_revisions"] = gen_revisions(rng, es)
        if not es["use_style"] and rng.random() < 0.3:
            es["contest_style_flag_unset"] = True
        run_case(es, rec)


def gen_revisions(rng, es):
    """Up to 4 cards get, in one of their contests, the votes of another card of that contest (a corrected export)."""
    revs = []
    for _ in range(rng.randint(1, 4)):
        i = rng.randrange(len(es["cards"]))
        cids = sorted(es["cards"][i]["votes"])
        if not cids:
            continue
        cid = rng.choice(cids)
        donors = [c for c in es["cards"] if cid in c["votes"] and c["votes"][cid] != es["cards"][i]["votes"][cid]]
        if not donors:
            continue
        how = "assign" if es["contests"][cid]["kind"] == "irv" or rng.random() < 0.5 else "update"
        revs.append([i, cid, dict(rng.choice(donors)["votes"][cid]), how])
    return revs


def run_case(es, rec):
    ok, sim = rec.guard("c03.setup", lambda: E.Sim(es).setup())
    has_ph = False
    if not ok:
        rec.case(es, nontrivial=False, sample=brief(es))
        return
    n_ph = sum(1 for c in sim.cvr_list if c.phantom)
    if n_ph and len(es["cards"]) % 3 == 0:
        # some of the cards behind phantom CVRs ARE found (the manifest lists the card, the export had no record of it):
        # their manual records are real ballots - of any style, so they may or may not list a given contest
        donors = [cd["votes"] for cd in es["cards"]]
        for j, i in enumerate(i for i, c in enumerate(sim.cvr_list) if c.phantom):
            if j % 2 == 0:
                es["mvrs"][str(i)] = {"kind": "votes", "votes": copy.deepcopy(donors[(i * 7 + j) % len(donors)])}
        rec.count("elections_where_cards_behind_phantom_cvrs_are_found")
    pooled = sum(1 for c in sim.cvr_list if c.pool)
    pooled_ph = sum(1 for c in sim.cvr_list if c.pool and c.phantom)
    discrep = len(es["mvrs"])
    rec.case(es, nontrivial=(discrep > 0 and (n_ph > 0 or pooled > 0)), sample=brief(es))
    rec.count("style_on" if sim.use_style else "style_off")
    if es.get("restrict_pool_dict") and sim.use_style and pooled:
        rec.count("pool_dict_restricted_to_audited_contests")
    if es.get("contest_style_flag_unset"):
        rec.count("audits_without_style_whose_contest_objects_do_not_carry_the_flag")
    if n_ph:
        rec.count("elections_with_phantoms")
    if pooled:
        rec.count("elections_with_pooled_cards")
        flags = {}
        for c in sim.cvr_list:
            flags.setdefault(c.tally_pool, set()).add(bool(c.pool))
        if any(len(v) == 2 for v in flags.values()):
            rec.count("elections_with_a_batch_holding_pooled_and_unpooled_cards")
    if pooled_ph:
        rec.count("elections_with_pooled_phantoms")
    if any(m["kind"] == "phantom" for m in es["mvrs"].values()):
        rec.count("elections_with_unfindable_cards")
    if check_identities(es, sim, rec) and es.get("cvr_revisions"):
        # the same objects after the CVRs were corrected in place and the margins recomputed from them
        ok, _ = rec.guard("c03.revise", sim.revise_cvrs, es["cvr_revisions"])
        if ok and check_identities(es, sim, rec):
            rec.count("identities_rechecked_after_cvrs_revised_in_place")


def check_identities(es, sim, rec):
    mvrs = [sim.mvr_for(i) for i in range(len(sim.cvr_list))]
    for cid, con in sim.contests.items():
        sc = es["contests"][cid]
        if sc["audit_type"] not in ("CARD_COMPARISON", "ONEAUDIT"):
            continue
        idx = sim.audited_indices(cid)
        want_idx = sim.ref_population(cid)
        rec.count("population_checked")
        if idx != want_idx:
            left_out = [sim.cvr_list[i] for i in want_idx if i not in idx]
            rec.violation("c03.population", f"{sc['audit_type']}:cards_under_audit_differ_from_reference",
                          {"contest": cid, "library_population": len(idx), "reference_population": len(want_idx),
                           "left_out": [[c.id, repr(c.tally_pool), c.pool, c.phantom] for c in left_out[:5]],
                           "extra": [sim.cvr_list[i].id for i in idx if i not in want_idx][:5]})
            return False
        if not idx:
            continue
        if any(sim.mvr_votes(i, cid)[0] == "missing" for i in idx):
            rec.count("elections_with_missing_contest_mvr")
        for name, a in con.assertions.items():
            u = a.assorter.upper_bound
            v = a.margin
            # "rejecting 'mean(B) <= 1/2' is rejecting 'the assertion is false'": the hypothesis the assertion's test
            # is configured for is a mean of at most 1/2, whatever the social choice function and share
            rec.count("null_mean_of_the_configured_test_checked")
            if getattr(a.test, "t", None) != 0.5:
                rec.violation("c03.identity", f"{sc['kind']}:{sc['audit_type']}:configured_test_does_not_test_mean_at_most_one_half",
                              {"contest": cid, "assertion": name, "test.t": getattr(a.test, "t", None), "share": sc.get("share")})
                return False
            Bs, As = [], []
            failed = False
            with np.errstate(all="ignore"):
                for i in idx:
                    ok, b = rec.guard(f"c03.call:overstatement_assorter:{sc['kind']}", a.overstatement_assorter,
                                      mvrs[i], sim.cvr_list[i], sim.use_style)
                    if not ok:
                        failed = True
                        break
                    Bs.append(float(b))
                    As.append(sim.ref_A(i, cid, name))
            if failed:
                return False
            # the same values as the audit itself obtains them: the data mvrs_to_data builds for this assertion from the
            # whole population (use_all: no threshold) must be those per-card values, card by card
            with np.errstate(all="ignore"):
                ok, du = rec.guard(f"c03.call:mvrs_to_data:{sc['kind']}", a.mvrs_to_data, mvrs, sim.cvr_list, True)
            if not ok:
                return False
            d = [float(v) for v in du[0]]
            if bool(con.use_style) != bool(sim.use_style):
                # the data route selects cards by the CONTEST object's flag (C06's clause); where that flag was left at
                # its default and differs from the stratum's, the card-by-card comparison has no common population
                rec.count("population_data_not_compared:contest_flag_differs_from_stratum")
                d = list(Bs)
            else:
                rec.count("population_data_compared_with_per_card_values")
            if len(d) != len(Bs) or any(not math.isclose(x, y, rel_tol=1e-12, abs_tol=1e-15) for x, y in zip(d, Bs)):
                j = next((k for k, (x, y) in enumerate(zip(d, Bs)) if not math.isclose(x, y, rel_tol=1e-12, abs_tol=1e-15)), min(len(d), len(Bs)))
                cv = sim.cvr_list[idx[j]] if j < len(idx) else None
                rec.violation("c03.identity", f"{sc['kind']}:{sc['audit_type']}:data_for_the_test_differ_from_per_card_overstatement_assorter",
                              {"contest": cid, "assertion": name, "position": j, "len_data": len(d), "len_population": len(Bs),
                               "data_value": d[j] if j < len(d) else None, "per_card_value": Bs[j] if j < len(Bs) else None,
                               "card": None if cv is None else [cv.id, cv.pool, cv.phantom, sorted(cv.votes)], "use_style": sim.use_style})
                return False
            n = len(idx)
            lhs = sum(Bs) / n - 0.5
            Abar = sum(As) / n
            rhs = (2 * Abar - 1) / (2 * (2 * u - v))
            rec.count("identities_checked")
            rec.count(f"assorter:{sc['kind']}")
            rec.count(f"audit:{sc['audit_type']}")
            if not math.isclose(lhs, rhs, rel_tol=1e-9, abs_tol=1e-12):
                # which side broke?  library's CVR-side score_i = omega_i + A_i, omega_i = u (1 - B_i (2 - v/u))
                cside = [u * (1 - b * (2 - v / u)) + A for b, A in zip(Bs, As)]
                conserved = math.isclose(sum(cside), n * (v + 1) / 2, rel_tol=1e-9, abs_tol=1e-9)
                mech = "mvr_side_convention_or_formula" if conserved else "cvr_side_scores_do_not_sum_to_n(v+1)/2"
                kinds = set()
                for i in idx:
                    cv = sim.cvr_list[i]
                    if cv.phantom and cv.pool:
                        kinds.add("pooled_phantom_cvr")
                    elif cv.phantom:
                        kinds.add("phantom_cvr")
                    elif cv.pool:
                        kinds.add("pooled_cvr")
                rec.violation("c03.identity", f"{sc['kind']}:{sc['audit_type']}:{mech}",
                              {"contest": cid, "assertion": name, "mean(B)-1/2": lhs, "(2mean(A)-1)/(2(2u-v))": rhs,
                               "margin": v, "u": u, "n": n, "cvr_side_sum": sum(cside), "expected_cvr_side_sum": n * (v + 1) / 2,
                               "population_has": sorted(kinds), "use_style": sim.use_style})
                return False
    return True


def brief(es):
    return {"use_style": es["use_style"], "max_cards": es["max_cards"], "n_cards": len(es["cards"]),
            "contests": {k: {kk: v[kk] for kk in ("kind", "winner", "audit_type", "cards", "share")} for k, v in es["contests"].items()},
            "first_cards": es["cards"][:3], "n_discrepant_mvrs": len(es["mvrs"]), "phantom_pool": es["phantom_pool"]}
