"""C16 — sample-size estimates are first-crossing times on the assumed data.

Reference-model monitors (the hypothetical population is built independently from the documentation; the REAL test
method is run on it; the oracle takes the first index with p <= risk limit, N if none):
  c16.tile       NonnegMean.sample_size(x, alpha, reps=None): population = pilot data TILED (x,x,x,...) to length N.
  c16.prefix     if the prefix data cross at k, every simulation-based estimate with prefix=True equals k for any
                 (reps, quantile, seed) - through NonnegMean.sample_size and through Assertion.find_sample_size.
  c16.comparison Assertion.find_sample_size(data=None) for comparison/ONEAudit: error-free value everywhere, the one-vote
                 value at positions 0,k,2k,.. (k = int(1/r1)), then 0 at positions 0,k',.. (k' = int(1/r2)).
  c16.polling    polling: {0 x loser tally, u x winner tally, 1/2 x rest} in the order interleave_values documents.
  c16.interleave interleave_values returns exactly the requested number of each value, starting with a small one.
  c16.max        Contest.find_sample_size / Audit.find_sample_size == the largest of the per-assertion estimates
                 (recorded by a contract on Assertion.find_sample_size).
"""
import contextlib
import io
import math
import random

import numpy as np

from vlib import contracts, nn
from vlib import election as E

RULE = ("seeded random configurations: non-constant pilot vectors shorter than N whose length does not divide N; N from 10 "
        "to 2000 (10^4 thorough); risk limits 0.01-0.3; every test x estimator/bet, random_order on and off; error rates "
        "0..0.3 and margins 2/N..0.5; tallies incl. loser 0 and winner = loser+1; non-trivial = the estimate is neither 1 "
        "nor N; distinct = hash of the case")
REQUIRED = ["tile_checked", "tile_nonconstant_pilot", "prefix_checked:nonnegmean", "prefix_checked:assertion",
            "comparison_checked", "polling_checked", "interleave_checked", "contest_max_checked", "audit_max_checked",
            "estimate_strictly_between_1_and_N", "never_crossed_returns_N", "random_order_false_cases",
            "contract:Assertion.find_sample_size", "raire_estimator_checked", "comparison_checked_assorter_bound_not_1", "audit_oneaudit_checked", "audit_oneaudit_both_rates_positive", "contest_oneaudit_checked",
            "polling_same_assertion_asked_again_after_tally_revised", "tile_assertion_checked",
            "tile_assertion_checked:pilot_total_alone_exceeds_N_t", "contest_estimates_with_some_assertions_already_confirmed",
            "tile_pilot_values_above_the_unused_bound:kaplan_tests"]
ASSUMPTIONS = ["int(1/r) is the documented spacing of assumed errors", "n_big >= 1 for interleave_values (a polling "
               "assertion has winner tally > loser tally >= 0)", "rates are always passed explicitly for comparison audits"]
N_CASES = {"quick": 64000, "thorough": 512000}
RATES = (0, 0, 0.5, 0.25, 0.125, 0.0625, 2.0 ** -10, 0.2, 0.1, 0.05, 0.001, 0.3)
LOG = []


def post_fss(rec, result, a, k, old):
    LOG.append((a[0], result))


def install(rec):
    from shangrla.core.Audit import Assertion
    contracts.wrap(Assertion, "find_sample_size", rec, post=post_fss)


def plan(tier, seed):
    shards = 16
    return [{"n": N_CASES[tier] // shards, "shard": i, "Nmax": 2000 if tier == "quick" else 10000} for i in range(shards)]


def first_crossing(hist, alpha, N):
    for j, p in enumerate(hist):
        if p <= alpha:
            return j + 1
    return N


def run_shard(spec, rec):
    rng = random.Random(f"c16-{spec['seed']}-{spec['shard']}")
    kinds = ("tile", "tile", "prefix", "comparison", "comparison", "polling", "interleave", "contest", "audit", "raire_estimator",
             "audit_oneaudit", "contest_oneaudit", "tile_assertion")
    for i in range(spec["n"]):
        kind = kinds[i % len(kinds)]
        case = {"kind": kind, "cseed": rng.randrange(10 ** 9), "Nmax": spec["Nmax"]}
        run_case(case, rec)


def gen_nm(rng, Nmax, force_ro=None):
    combo = rng.choice(nn.COMBOS)
    cfg = nn.gen_cfg(rng, combo=combo, allow_not_random=True, u=rng.choice((1.0, 1.0, 1.0625, 1.5)))
    if combo[0] in ("kaplan_markov", "kaplan_wald"):
        cfg["N"] = "inf"
    N = rng.choice((10, 17, 50, 101, 500, 1000, Nmax))
    # sample_size needs a finite N to build the population: the IID tests are given the attribute N as well
    cfg["N"] = N
    if force_ro is not None and not (cfg["test"] == "wald_sprt"):
        cfg["random_order"] = force_ro
    if cfg["test"] == "wald_sprt":
        cfg["random_order"] = True
    return cfg, N


def run_case(case, rec):
    rng = random.Random(case["cseed"])
    kind = case["kind"]
    return {"tile": run_tile, "prefix": run_prefix, "comparison": run_comparison, "polling": run_polling,
            "interleave": run_interleave, "contest": run_contest, "audit": run_audit,
            "raire_estimator": run_raire_estimator, "audit_oneaudit": run_audit_oneaudit,
            "contest_oneaudit": run_contest_oneaudit, "tile_assertion": run_tile_assertion}[kind](case, rng, rec)


def gen_pilot(rng, u, t, N):
    L = rng.choice((2, 3, 5, 7, 11, 16))
    L = min(L, N - 1) if N > 2 else 1
    lean = rng.choice(("strong", "strong", "weak", "mixed"))
    vals = {"strong": (u, u, u, 3 * u / 4, t), "weak": (u, t, t, u / 2, 0.0), "mixed": (0.0, u, u, t, u / 4)}[lean]
    x = [rng.choice(vals) for _ in range(L)]
    if len(set(x)) == 1 and L > 1:
        x[rng.randrange(L)] = 0.0 if x[0] != 0.0 else u
    return x


def run_tile(case, rng, rec):
    cfg, N = gen_nm(rng, case["Nmax"], force_ro=(False if rng.random() < 0.3 else None))
    x = gen_pilot(rng, cfg["u"], cfg["t"], N)
    if cfg["test"] in ("kaplan_markov", "kaplan_wald", "kaplan_kolmogorov") and rng.random() < 0.3:
        # the Kaplan tests are for nonnegative data without an upper bound (the attribute u plays no part in them): pilot
        # values above it are ordinary pilot values
        x = [v * 1.5 if v == cfg["u"] else v for v in x]
        if any(v > cfg["u"] for v in x):
            rec.count("tile_pilot_values_above_the_unused_bound:kaplan_tests")
    alpha = rng.choice((0.01, 0.05, 0.1, 0.3))
    obj = nn.build(cfg)
    lab = nn.label(cfg)
    with np.errstate(all="ignore"):
        ok, got = rec.guard(f"c16.call:sample_size:{lab}", obj.sample_size, np.array(x), alpha=alpha, reps=None)
        if not ok:
            rec.case(case, nontrivial=False)
            return
        pop = (x * (N // len(x) + 1))[:N]
        ok, res = rec.guard(f"c16.call:test:{lab}", obj.test, np.array(pop, dtype=float))
        if not ok:
            return
    want = first_crossing(np.asarray(res[1], dtype=float), alpha, N)
    rec.case(dict(case, cfg=cfg, x=x, alpha=alpha), nontrivial=(1 < want < N))
    rec.count("tile_checked")
    if len(set(x)) > 1 and N % len(x) != 0:
        rec.count("tile_nonconstant_pilot")
    if not cfg.get("random_order", True):
        rec.count("random_order_false_cases")
    observe(rec, want, N)
    if got != want:
        # diagnose: repeat instead of tile?
        rep = list(np.repeat(np.array(x), math.ceil(N / len(x)))[:N])
        with np.errstate(all="ignore"):
            h2 = obj.test(np.array(rep, dtype=float))[1]
        mech = "population_is_repeat_not_tile" if first_crossing(h2, alpha, N) == got and got != want else \
            "off_by_one" if abs(got - want) == 1 else "never_crossed_rule" if N in (got, want) else "first_crossing_differs"
        rec.violation("c16.tile", f"{lab}:{mech}", {"estimate": got, "first_crossing_on_tiled_population": want, "N": N,
                                                    "alpha": alpha, "pilot": x, "cfg": cfg})


def run_tile_assertion(case, rng, rec):
    """Assertion.find_sample_size with pilot data and reps=None (prefix flag on or off: documented as unused then): the
    first crossing on the pilot tiled to the population size - also for pilots long enough that their own total passes
    N t at their last value (a history of the pilot ALONE ends with the final-sample rule; the tiled population's does not)."""
    N = rng.choice((10, 25, 37, 64, 100))
    ok, mk = rec.guard("c16.call:make_assertions", make_contest, rng, "POLLING", N, 3)
    if not ok:
        return
    con, tcfg = mk
    asn = con.assertions["A v B"]
    u = asn.assorter.upper_bound
    asn.test.u = u
    asn.margin = rng.choice((0.05, 0.2))     # (the function asserts a positive margin; with pilot data it is not used)
    if rng.random() < 0.5:
        L = rng.randint(N // 2 + 1, N - 1)      # long pilot, mostly large values: its total passes N/2 near its end
        x = [rng.choice((u, u, u, u / 2, 0.0)) for _ in range(L)]
        x[-1] = u
    else:
        x = gen_pilot(rng, u, 0.5, N)
    prefix = rng.random() < 0.6
    with np.errstate(all="ignore"):
        ok, got = rec.guard("c16.call:find_sample_size:pilot", asn.find_sample_size, data=np.array(x, dtype=float), prefix=prefix, reps=None)
        if not ok:
            rec.case(case, nontrivial=False)
            return
        pop = (x * (N // len(x) + 1))[:N]
        ok, res = rec.guard("c16.call:test", asn.test.test, np.array(pop, dtype=float))
        if not ok:
            return
    want = first_crossing(np.asarray(res[1], dtype=float), con.risk_limit, N)
    rec.case(dict(case, N=N, x=x, prefix=prefix, risk=con.risk_limit, test=tcfg), nontrivial=(1 < want < N))
    rec.count("tile_assertion_checked")
    if sum(x) > N / 2:
        rec.count("tile_assertion_checked:pilot_total_alone_exceeds_N_t")
    observe(rec, want, N)
    if got != want:
        rec.violation("c16.tile", "assertion_level:estimate_is_not_first_crossing_on_the_tiled_pilot",
                      {"estimate": got, "first_crossing_on_tiled_population": want, "N": N, "risk_limit": con.risk_limit,
                       "pilot": x, "prefix_flag": prefix, "test": tcfg})


def observe(rec, want, N):
    if 1 < want < N:
        rec.count("estimate_strictly_between_1_and_N")
    if want == N:
        rec.count("never_crossed_returns_N")


def run_prefix(case, rng, rec):
    cfg, N = gen_nm(rng, min(case["Nmax"], 500), force_ro=(False if rng.random() < 0.3 else None))
    obj = nn.build(cfg)
    lab = nn.label(cfg)
    u, t = cfg["u"], cfg["t"]
    alpha = rng.choice((0.05, 0.1, 0.3))
    # a prefix that crosses: strong values first, then anything (incl. values that would un-cross later)
    L = min(N - 1, rng.choice((6, 10, 16, 30)))
    x = [u] * rng.randint(3, L) + [rng.choice((0.0, t, u)) for _ in range(rng.randint(0, 5))]
    x = x[:max(1, min(len(x), N - 2))]
    with np.errstate(all="ignore"):
        # "the prefix crosses at k" is read off a history that continues beyond the prefix (x + one more draw), so
        # that the final-sample certainty clamp of a sample ending exactly at the prefix does not count as a crossing
        ok, res = rec.guard(f"c16.call:test:{lab}", obj.test, np.array(x + [0.0], dtype=float))
        if not ok:
            rec.case(case, nontrivial=False)
            return
        h = np.asarray(res[1], dtype=float)[:len(x)]
        crossed = [j for j, p in enumerate(h) if p <= alpha]
        if not crossed:
            rec.case(case, nontrivial=False)
            rec.count("prefix_did_not_cross_skipped")
            return
        k = crossed[0] + 1
        rec.case(dict(case, cfg=cfg, x=x, alpha=alpha), nontrivial=(1 < k))
        if not cfg.get("random_order", True):
            rec.count("random_order_false_cases")
        for _ in range(3):
            R, q, s = rng.choice((1, 3, 10)), rng.choice((0.1, 0.5, 0.9)), rng.randrange(10 ** 6)
            ok, got = rec.guard(f"c16.call:sample_size:{lab}", obj.sample_size, np.array(x, dtype=float), alpha=alpha,
                                reps=R, prefix=True, quantile=q, seed=s)
            if not ok:
                return
            rec.count("prefix_checked:nonnegmean")
            if got != k:
                rec.violation("c16.prefix", f"{lab}:simulated_estimate_ignores_crossing_prefix",
                              {"estimate": got, "prefix_crosses_at": k, "reps": R, "quantile": q, "seed": s, "N": N,
                               "alpha": alpha, "prefix": x, "random_order": cfg.get("random_order", True)})
                return
    run_prefix_assertion(case, rng, rec)


def run_prefix_assertion(case, rng, rec):
    """The same clause through Assertion.find_sample_size(data=prefix, prefix=True, reps=R, ...)."""
    N = rng.choice((30, 100, 400))
    at = rng.choice(("CARD_COMPARISON", "ONEAUDIT", "POLLING"))
    ok, mk = rec.guard("c16.call:make_assertions", make_contest, rng, at, N, 2)
    if not ok:
        return
    con, tcfg = mk
    asn = next(iter(con.assertions.values()))
    v = rng.choice((0.05, 0.1, 0.25, 0.5))
    ua = asn.assorter.upper_bound
    asn.margin = v
    asn.test.u = ua if at == "POLLING" else 2 / (2 - v / ua)
    good = 1.0 if at == "POLLING" else 1 / (2 - v / ua)
    x = [good] * rng.randint(5, 25) + [rng.choice((0.0, good / 2, good)) for _ in range(rng.randint(0, 4))]
    x = x[:N - 2]
    with np.errstate(all="ignore"):
        ok, res = rec.guard("c16.call:test", asn.test.test, np.array(x + [0.0], dtype=float))
        if not ok:
            return
        h = np.asarray(res[1], dtype=float)[:len(x)]
        crossed = [j for j, p in enumerate(h) if p <= con.risk_limit]
        if not crossed:
            rec.count("prefix_did_not_cross_skipped")
            return
        k = crossed[0] + 1
        for _ in range(2):
            R, q, s = rng.choice((1, 3, 10)), rng.choice((0.1, 0.5, 0.9)), rng.randrange(10 ** 6)
            ok, got = rec.guard("c16.call:find_sample_size:prefix", asn.find_sample_size, data=np.array(x, dtype=float),
                                prefix=True, reps=R, quantile=q, seed=s)
            if not ok:
                return
            rec.count("prefix_checked:assertion")
            if got != k:
                rec.violation("c16.prefix", f"{at}:assertion_estimate_ignores_crossing_prefix",
                              {"estimate": got, "prefix_crosses_at": k, "reps": R, "quantile": q, "seed": s, "N": N,
                               "risk_limit": con.risk_limit, "test": tcfg})
                return


def make_contest(rng, audit_type, N, ncand=3, risk=None, share=None):
    from shangrla.core.Audit import Assertion, Audit, Contest
    from shangrla.core.NonnegMean import NonnegMean
    cands = ["A", "B", "C", "D"][:ncand]
    if share is not None:
        test, estim, bet, kw = rng.choice([t for t in E.TESTS_FOR[audit_type] if t[0] in ("alpha_mart", "betting_mart") and t[2] != "fixed_bet"])
        con = Contest.from_dict({"id": "c", "name": "c", "risk_limit": risk or rng.choice((0.01, 0.05, 0.1, 0.3)), "cards": N,
                                 "choice_function": Contest.SOCIAL_CHOICE_FUNCTION.SUPERMAJORITY, "n_winners": 1, "share_to_win": share,
                                 "candidates": cands, "winner": ["A"], "audit_type": getattr(Audit.AUDIT_TYPE, audit_type),
                                 "test": getattr(NonnegMean, test), "estim": getattr(NonnegMean, estim) if estim else None,
                                 "bet": getattr(NonnegMean, bet) if bet else None, "test_kwargs": dict(kw), "use_style": True})
        con.assertions = Assertion.make_supermajority_assertion(contest=con, winner="A", loser=cands[1:], share_to_win=share,
                                                                test=con.test, estim=con.estim, bet=con.bet, test_kwargs=dict(kw))
        return con, (test, estim, bet, kw)
    test, estim, bet, kw = rng.choice(E.TESTS_FOR[audit_type])
    if test in ("kaplan_markov", "kaplan_wald", "kaplan_kolmogorov"):
        test, estim, bet, kw = "alpha_mart", "shrink_trunc", None, {"d": 10, "f": 0}
    con = Contest.from_dict({"id": "c", "name": "c", "risk_limit": risk or rng.choice((0.01, 0.05, 0.1, 0.3)), "cards": N,
                             "choice_function": Contest.SOCIAL_CHOICE_FUNCTION.PLURALITY, "n_winners": 1,
                             "candidates": cands, "winner": ["A"], "audit_type": getattr(Audit.AUDIT_TYPE, audit_type),
                             "test": getattr(NonnegMean, test), "estim": getattr(NonnegMean, estim) if estim else None,
                             "bet": getattr(NonnegMean, bet) if bet else None, "test_kwargs": dict(kw), "use_style": True})
    con.assertions = Assertion.make_plurality_assertions(contest=con, winner=["A"], loser=cands[1:], test=con.test,
                                                         estim=con.estim, bet=con.bet, test_kwargs=dict(kw))
    return con, (test, estim, bet, kw)


def run_comparison(case, rng, rec):
    N = rng.choice((10, 37, 100, 500, 1000, case["Nmax"]))
    at = rng.choice(("CARD_COMPARISON", "ONEAUDIT"))
    share = rng.choice((None, None, 0.4, 2 / 3, 0.25, 0.6))   # assorter bounds 1, 1.25, 0.75, 2, 0.833
    ok, mk = rec.guard("c16.call:make_assertions", make_contest, rng, at, N, 2, None, share)
    if not ok:
        return
    con, tcfg = mk
    asn = next(iter(con.assertions.values()))
    if share is not None:
        rec.count("comparison_checked_assorter_bound_not_1")
    v = rng.choice((2 / N, 0.01, 0.05, 0.1, 0.25, 0.5))
    r1, r2 = rng.choice(RATES), rng.choice(RATES)
    ua = asn.assorter.upper_bound
    asn.margin = v
    asn.test.u = 2 / (2 - v / ua)
    with np.errstate(all="ignore"):
        ok, got = rec.guard("c16.call:find_sample_size:comparison", asn.find_sample_size, data=None, rate_1=r1, rate_2=r2, reps=None)
        if not ok:
            rec.case(case, nontrivial=False)
            return
        big = 1 / (2 - v / ua)
        small = (1 - 0.5 / ua) / (2 - v / ua)
        pop = [big] * N
        if r1:
            for j in range(0, N, int(1 / r1)):
                pop[j] = small
        if r2:
            for j in range(0, N, int(1 / r2)):
                pop[j] = 0.0
        ok, res = rec.guard("c16.call:test", asn.test.test, np.array(pop, dtype=float))
        if not ok:
            return
    want = first_crossing(np.asarray(res[1], dtype=float), con.risk_limit, N)
    rec.case(dict(case, N=N, margin=v, r1=r1, r2=r2, test=tcfg, risk=con.risk_limit, audit_type=at), nontrivial=(1 < want < N))
    rec.count("comparison_checked")
    observe(rec, want, N)
    if got != want or asn.sample_size != got:
        rec.violation("c16.comparison", "estimate_is_not_first_crossing_on_documented_population",
                      {"estimate": got, "first_crossing": want, "N": N, "margin": v, "rate_1": r1, "rate_2": r2,
                       "risk_limit": con.risk_limit, "test": tcfg, "stored": asn.sample_size})


def run_polling(case, rng, rec):
    N = rng.choice((10, 37, 100, 500, 1000))
    ok, mk = rec.guard("c16.call:make_assertions", make_contest, rng, "POLLING", N, 3)
    if not ok:
        return
    con, tcfg = mk
    from shangrla.core.Audit import Assertion
    mode = rng.choice(("random", "loser_zero", "winner_plus_one", "no_half"))
    if mode == "loser_zero":
        tal = {"A": rng.randint(1, N), "B": 0, "C": 0}
    elif mode == "winner_plus_one":
        b = rng.randint(0, (N - 1) // 2)
        tal = {"A": b + 1, "B": b, "C": 0}
    elif mode == "no_half":
        a = rng.randint(N // 2 + 1, N)
        tal = {"A": a, "B": N - a, "C": 0}
    else:
        a = rng.randint(2, N)
        b = rng.randint(0, min(a - 1, N - a))
        tal = {"A": a, "B": b, "C": rng.randint(0, min(b, N - a - b))}
    asn = con.assertions["A v B"]
    if tal["A"] - tal["B"] <= 0:
        rec.case(case, nontrivial=False)
        return
    if not polling_one_tally(case, rec, con, asn, tal, N, tcfg):
        return
    if rng.random() < 0.5:
        # the reported tally is revised and the SAME assertion asked again: same N and same winner-minus-loser difference
        # (votes moved between the pair and the non-votes), or an arbitrary revision
        if rng.random() < 0.7:
            lo, hi = -tal["B"], (N - tal["A"] - tal["B"]) // 2
            ds = [d for d in range(lo, hi + 1) if d != 0]
            if not ds:
                return
            d = rng.choice(ds)
            tal2 = {"A": tal["A"] + d, "B": tal["B"] + d, "C": 0}
        else:
            a = rng.randint(2, N)
            tal2 = {"A": a, "B": rng.randint(0, min(a - 1, N - a)), "C": 0}
        rec.count("polling_same_assertion_asked_again_after_tally_revised")
        polling_one_tally(dict(case, revised_from=tal), rec, con, asn, tal2, N, tcfg)


def polling_one_tally(case, rec, con, asn, tal, N, tcfg):
    from shangrla.core.Audit import Assertion
    con.tally = tal
    asn.margin = (tal["A"] - tal["B"]) / N
    asn.test.u = asn.assorter.upper_bound
    with np.errstate(all="ignore"):
        ok, got = rec.guard("c16.call:find_sample_size:polling", asn.find_sample_size, data=None, reps=None)
        if not ok:
            rec.case(case, nontrivial=False)
            return False
        n0, nbig = tal["B"], tal["A"]
        pop = Assertion.interleave_values(n0, N - n0 - nbig, nbig, big=asn.assorter.upper_bound)
        ok, res = rec.guard("c16.call:test", asn.test.test, np.array(pop, dtype=float))
        if not ok:
            return False
    want = first_crossing(np.asarray(res[1], dtype=float), con.risk_limit, N)
    rec.case(dict(case, N=N, tally=tal, test=tcfg, risk=con.risk_limit), nontrivial=(1 < want < N))
    rec.count("polling_checked")
    observe(rec, want, N)
    if sorted(pop) != sorted([0.0] * n0 + [0.5] * (N - n0 - nbig) + [float(asn.assorter.upper_bound)] * nbig):
        rec.violation("c16.polling", "interleaved_population_is_not_the_reported_tallies", {"tally": tal, "N": N})
        return False
    if got != want:
        rec.violation("c16.polling", "estimate_is_not_first_crossing_on_interleaved_tallies",
                      {"estimate": got, "first_crossing": want, "N": N, "tally": tal, "risk_limit": con.risk_limit, "test": tcfg,
                       "revised_from": case.get("revised_from")})
        return False
    return True


def run_interleave(case, rng, rec):
    from shangrla.core.Audit import Assertion
    ns, nm, nb = rng.choice((0, 0, 1, 3, 10)), rng.choice((0, 1, 4, 25)), rng.choice((1, 2, 7, 40))
    small, med, big = rng.choice(((0, 0.5, 1), (0.1, 1, 2), (0, 0.5, 1.5)))
    ok, x = rec.guard("c16.call:interleave_values", Assertion.interleave_values, ns, nm, nb, small, med, big)
    rec.case(dict(case, counts=[ns, nm, nb]), nontrivial=(ns > 0 and nm > 0))
    if not ok:
        return
    rec.count("interleave_checked")
    x = [float(v) for v in x]
    if len(x) != ns + nm + nb or x.count(float(small)) != ns or x.count(float(med)) != nm or x.count(float(big)) != nb:
        rec.violation("c16.interleave", "wrong_number_of_each_value", {"requested": [ns, nm, nb],
                                                                       "got": [x.count(float(small)), x.count(float(med)), x.count(float(big))]})
        return
    if ns > 0 and x[0] != float(small):
        rec.violation("c16.interleave", "does_not_start_with_a_small_value", {"first": x[0]})


def run_contest(case, rng, rec):
    from shangrla.core.Audit import Audit
    N = rng.choice((50, 200, 1000))
    at = rng.choice(("CARD_COMPARISON", "CARD_COMPARISON", "POLLING"))
    ok, mk = rec.guard("c16.call:make_assertions", make_contest, rng, at, N, rng.choice((3, 4)))
    if not ok:
        return
    con, tcfg = mk
    audit = Audit.from_dict({"seed": 1, "sim_seed": rng.randrange(10 ** 6), "quantile": 0.8, "error_rate_1": rng.choice((0, 0.001, 0.05)),
                             "error_rate_2": rng.choice((0, 0, 0.01)), "reps": None,
                             "strata": {"s": {"max_cards": N, "use_style": True, "replacement": False}}})
    a_votes = rng.randint(N // 3, N // 2)
    rest = N - a_votes
    tal = {"A": a_votes}
    for c in con.candidates[1:]:
        tal[c] = rng.randint(0, min(a_votes - 1, rest))
        rest -= tal[c]
    con.tally = tal
    for name, asn in con.assertions.items():
        asn.margin = (tal["A"] - tal[asn.loser]) / N
        asn.test.u = asn.assorter.upper_bound if at == "POLLING" else 2 / (2 - asn.margin / asn.assorter.upper_bound)
    if rng.random() < 0.4:
        # between rounds some assertions are already confirmed: the contest's estimate is still the largest among ITS
        # assertions (the property makes no exception; the audit-level function is where confirmed ones are skipped)
        for j, asn in enumerate(con.assertions.values()):
            if j == 0 or rng.random() < 0.3:
                asn.proved, asn.p_value = True, con.risk_limit / 2
        rec.count("contest_estimates_with_some_assertions_already_confirmed")
    del LOG[:]
    with np.errstate(all="ignore"):
        ok, got = rec.guard("c16.call:Contest.find_sample_size", con.find_sample_size, audit)
    rec.case(dict(case, N=N, tally=tal, audit_type=at, test=tcfg), nontrivial=len(set(r for _, r in LOG)) > 1)
    if not ok:
        return
    per = [r for a, r in LOG if a in con.assertions.values()]
    rec.count("contest_max_checked")
    if len(per) != len(con.assertions) or got != max(per) or con.sample_size != got:
        rec.violation("c16.max", "contest_estimate_is_not_the_largest_assertion_estimate",
                      {"contest_estimate": got, "assertion_estimates": per, "stored": con.sample_size})


def run_audit(case, rng, rec):
    es = E.gen_spec(rng, n_contests=rng.choice((1, 2, 3)), n_cards=rng.choice((20, 40, 60)), error_rate=rng.choice((0, 0.05)),
                    allow_wrong=False, kinds=("plurality", "plurality", "supermajority"), style=False,
                    audit_types=("CARD_COMPARISON",), phantom_rate=0)
    ok, sim = rec.guard("c16.setup", lambda: E.Sim(es).setup())
    rec.case(dict(case, n_cards=len(es["cards"])), nontrivial=True)
    if not ok:
        return
    if any(a.margin is None or not a.margin > 0 for con in sim.contests.values() for a in con.assertions.values()):
        rec.count("audit_case_nonpositive_margin_skipped")
        return
    sim.assign_sample_nums()
    sim.set_sizes({cid: min(5, len(sim.cvr_list)) for cid in sim.contests})
    idx = sim.draw()
    m, c = sim.samples(list(idx))
    sink = io.StringIO()
    with np.errstate(all="ignore"), contextlib.redirect_stdout(sink):
        ok, _ = rec.guard("c16.call:set_p_values", sim.L["Assertion"].set_p_values, sim.contests, m, c)
        if not ok:
            return
        del LOG[:]
        ok, total = rec.guard("c16.call:Audit.find_sample_size", sim.audit.find_sample_size, sim.contests, sim.cvr_list, m, c)
    if not ok:
        return
    rec.count("audit_max_checked")
    overall = 0
    for cid, con in sim.contests.items():
        per = [r for a, r in LOG if a in con.assertions.values()]
        unproved = [a for a in con.assertions.values() if not a.proved]
        want = max(per) if per else 0
        if len(per) != len(unproved) or con.sample_size != want:
            rec.violation("c16.max", "audit_sets_contest_size_to_something_else_than_the_largest_unproved_assertion_estimate",
                          {"contest": cid, "sample_size": con.sample_size, "assertion_estimates": per, "unproved": len(unproved)})
            return
        overall = max(overall, want)
    if total != overall:
        rec.violation("c16.max", "audit_estimate_is_not_the_largest_contest_estimate", {"returned": total, "largest": overall})


def run_raire_estimator(case, rng, rec):
    """shangrla.raire.sample_estimator.sample_size: first crossing of its own ALPHA test on the assumed data."""
    from types import SimpleNamespace
    from shangrla.core.Audit import Assertion
    from shangrla.core.NonnegMean import NonnegMean
    from shangrla.raire.sample_estimator import sample_size as raire_ss
    polling = rng.random() < 0.4
    N = rng.choice((30, 100, 400, 1000))
    alpha = rng.choice((0.05, 0.1, 0.3))
    r1, r2 = rng.choice(RATES), rng.choice(RATES)
    if polling:
        tw = rng.randint(N // 2 + 1, N)
        tl = rng.randint(0, N - tw)
        to = N - tw - tl
        mean = (tw + 0.5 * to) / N
    else:
        mean = 0.5 + rng.choice((2 / N, 0.01, 0.05, 0.1, 0.25)) / 2
        tw = tl = to = 0
    args = SimpleNamespace(erate1=r1, erate2=r2, rlimit=alpha, reps=None, seed=rng.randrange(10 ** 6))
    ub = 1 if polling else rng.choice((1, 1, 0.75, 1.25, 2))     # the assorter's upper bound (a parameter of the function)
    if ub != 1:
        rec.count("raire_estimator_checked:assorter_bound_not_1")
    with np.errstate(all="ignore"):
        ok, got = rec.guard("c16.call:raire.sample_estimator.sample_size", raire_ss, mean, tw, tl, to, args, N, ub, polling)
        if not ok:
            rec.case(case, nontrivial=False)
            return
        margin = 2 * mean - 1
        u = 2 / (2 - margin / ub)
        if polling:
            pop = list(Assertion.interleave_values(tl, to, tw, big=1))
            test = NonnegMean(test=NonnegMean.alpha_mart, estim=NonnegMean.shrink_trunc, N=N, u=u, eta=mean)
        else:
            big, small = 1 / (2 - margin / ub), 0.5 / (2 - margin / ub)   # (1 - o/u_a)/(2 - v/u_a) as the function documents it, o = 0, 1/2
            pop = [big] * N
            if r1:
                for j in range(0, N, int(1 / r1)):
                    pop[j] = small
            if r2:
                for j in range(0, N, int(1 / r2)):
                    pop[j] = 0.0
            test = NonnegMean(test=NonnegMean.alpha_mart, estim=NonnegMean.optimal_comparison, N=N, u=u, eta=mean)
        pop = (pop * (N // len(pop) + 1))[:N]
        ok, res = rec.guard("c16.call:test", test.test, np.array(pop, dtype=float))
        if not ok:
            return
    want = first_crossing(np.asarray(res[1], dtype=float), alpha, N)
    rec.case(dict(case, N=N, mean=mean, polling=polling, r1=r1, r2=r2, alpha=alpha), nontrivial=(1 < want < N))
    rec.count("raire_estimator_checked")
    observe(rec, want, N)
    if got != want:
        rec.violation("c16.raire", "raire_estimate_is_not_first_crossing_on_assumed_data",
                      {"estimate": got, "first_crossing": want, "N": N, "mean": mean, "polling": polling, "r1": r1, "r2": r2, "alpha": alpha})


def run_audit_oneaudit(case, rng, rec):
    """Audit.find_sample_size before any card is examined, ONEAudit: the documented population is the error-free
    overstatement-assorter values of the CVRs against themselves (pooled cards included), with the one-vote value at every
    floor(1/r1)-th position and then 0 at every floor(1/r2)-th position, tiled to N."""
    es = E.gen_spec(rng, n_contests=rng.choice((1, 2)), n_cards=rng.choice((20, 40, 60)), error_rate=0, allow_wrong=False,
                    kinds=("plurality", "plurality", "supermajority"), style=True, audit_types=("ONEAUDIT",), phantom_rate=0)
    for con in es["contests"].values():
        con["test"], con["estim"], con["bet"], con["test_kwargs"] = rng.choice((("alpha_mart", "shrink_trunc", None, {"d": 10, "f": 0}),
                                                                                  ("alpha_mart", "optimal_comparison", None, {}),
                                                                                  ("betting_mart", None, "agrapa", {})))
    ok, sim = rec.guard("c16.setup", lambda: E.Sim(es).setup())
    rec.case(dict(case, n_cards=len(es["cards"])), nontrivial=True)
    if not ok:
        return
    if any(a.margin is None or not a.margin > 0 for con in sim.contests.values() for a in con.assertions.values()):
        rec.count("audit_case_nonpositive_margin_skipped")
        return
    r1, r2 = rng.choice((0.05, 0.1, 0.25, 0.5, 0)), rng.choice((0.05, 0.1, 0.25, 0, 0.02))
    sim.audit.error_rate_1, sim.audit.error_rate_2, sim.audit.reps = r1, r2, None
    for c in sim.cvr_list:
        c.sampled = False
    sink = io.StringIO()
    del LOG[:]
    with np.errstate(all="ignore"), contextlib.redirect_stdout(sink):
        ok, total = rec.guard("c16.call:Audit.find_sample_size", sim.audit.find_sample_size, sim.contests, sim.cvr_list)
        if not ok:
            return
        rec.count("audit_oneaudit_checked")
        if r1 and r2:
            rec.count("audit_oneaudit_both_rates_positive")
        for cid, con in sim.contests.items():
            worst = 0
            for name, asn in con.assertions.items():
                ok, du = rec.guard("c16.call:mvrs_to_data", asn.mvrs_to_data, sim.cvr_list, sim.cvr_list, True)
                if not ok:
                    return
                data = [float(v) for v in du[0]]
                ua, v = asn.assorter.upper_bound, asn.margin
                if ua != 1 and r2:
                    # for an assorter bound other than 1 the library's two entry points disagree on what a "two-vote
                    # overstatement" is worth (Assertion.find_sample_size writes 0, this branch writes
                    # make_overstatement(1) = (1 - 1/u_a)/(2 - v/u_a)); the property does not settle it, so the
                    # population is compared only where both readings coincide
                    rec.count("audit_oneaudit_ambiguous_two_vote_value_skipped")
                    worst = None
                    break
                one = (1 - 0.5 / ua) / (2 - v / ua)
                if r1:
                    for j in range(0, len(data), math.floor(1 / r1)):
                        data[j] = one
                if r2:
                    for j in range(0, len(data), math.floor(1 / r2)):
                        data[j] = 0.0
                N = asn.test.N
                pop = (data * (N // len(data) + 1))[:N]
                ok, res = rec.guard("c16.call:test", asn.test.test, np.array(pop, dtype=float))
                if not ok:
                    return
                want = first_crossing(np.asarray(res[1], dtype=float), con.risk_limit, N)
                got = [r for a, r in LOG if a is asn]
                if not got or got[-1] != want:
                    rec.violation("c16.comparison", "oneaudit_estimate_is_not_first_crossing_on_documented_population",
                                  {"contest": cid, "assertion": name, "estimate": got[-1] if got else None, "first_crossing": want,
                                   "rate_1": r1, "rate_2": r2, "N": N, "n_data": len(data)})
                    return
                worst = max(worst, want)
            if worst is not None and con.sample_size != worst:
                rec.violation("c16.max", "audit_sets_contest_size_to_something_else_than_the_largest_unproved_assertion_estimate",
                              {"contest": cid, "sample_size": con.sample_size, "largest": worst})
                return


def run_contest_oneaudit(case, rng, rec):
    """Contest.find_sample_size for ONEAudit before any card is examined: every assertion is estimated on ITS OWN
    error-free values (the CVRs against themselves), tiled; the contest estimate is the largest."""
    es = E.gen_spec(rng, n_contests=1, n_cards=rng.choice((20, 40, 60)), error_rate=0, allow_wrong=False,
                    kinds=("plurality",), style=False, audit_types=("ONEAUDIT",), phantom_rate=0)
    con_spec = es["contests"]["con1"]
    con_spec["test"], con_spec["estim"], con_spec["bet"], con_spec["test_kwargs"] = rng.choice(
        (("alpha_mart", "shrink_trunc", None, {"d": 10, "f": 0}), ("alpha_mart", "optimal_comparison", None, {}),
         ("betting_mart", None, "agrapa", {})))
    ok, sim = rec.guard("c16.setup", lambda: E.Sim(es).setup())
    rec.case(dict(case, n_cards=len(es["cards"])), nontrivial=True)
    if not ok:
        return
    con = sim.contests["con1"]
    if len(con.assertions) < 2 or any(a.margin is None or not a.margin > 0 for a in con.assertions.values()):
        rec.count("contest_oneaudit_skipped")
        return
    sim.audit.error_rate_1, sim.audit.error_rate_2, sim.audit.reps = 0, 0, None
    sink = io.StringIO()
    del LOG[:]
    with np.errstate(all="ignore"), contextlib.redirect_stdout(sink):
        ok, got = rec.guard("c16.call:Contest.find_sample_size", con.find_sample_size, sim.audit, None, sim.cvr_list)
        if not ok:
            return
        rec.count("contest_oneaudit_checked")
        worst = 0
        for name, asn in con.assertions.items():
            ok, du = rec.guard("c16.call:mvrs_to_data", asn.mvrs_to_data, sim.cvr_list, sim.cvr_list)
            if not ok:
                return
            data = [float(v) for v in du[0]]
            N = asn.test.N
            pop = (data * (N // len(data) + 1))[:N]
            ok, res = rec.guard("c16.call:test", asn.test.test, np.array(pop, dtype=float))
            if not ok:
                return
            want = first_crossing(np.asarray(res[1], dtype=float), con.risk_limit, N)
            mine = [r for a, r in LOG if a is asn]
            if not mine or mine[-1] != want:
                rec.violation("c16.comparison", "oneaudit_contest_level_assertion_estimated_on_other_data",
                              {"assertion": name, "estimate": mine[-1] if mine else None, "first_crossing_on_its_own_values": want, "N": N})
                return
            worst = max(worst, want)
    if got != worst or con.sample_size != worst:
        rec.violation("c16.max", "contest_estimate_is_not_the_largest_assertion_estimate",
                      {"contest_estimate": got, "largest": worst, "stored": con.sample_size})
