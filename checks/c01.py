"""C01 — p-values are sequentially valid under every null population.

Deciding monitors (exact counts over completely enumerated families of executions of the real test):
  c01.perm   M1: for a null population (a multiset with mean <= t) run the configured real test on EVERY distinct
             ordering; q = min(overall p, min_j p_j); for every attained alpha < 1 the fraction of orderings with
             q <= alpha must not exceed alpha.  Orderings of a multiset are equiprobable, so this is the exact
             rejection probability under sampling without replacement.
  c01.iid    M2: for a finite law (2-3 dyadic atoms, rational weights, mean <= t) run the real test (N infinite) on all
             k^n sequences of length n weighted by their exact probability (fractions.Fraction); same oracle.
  c01.mc     M5 (thorough only): for N in {200, 1000} the orderings cannot be enumerated; 20000 seeded shuffles of a
             null population; a violation only if the exact binomial tail P(Bin(n, alpha) >= k) < 1e-9.
The verdict of M1/M2 is an exact rational comparison (no statistical test, no seed dependence of the oracle).
"""
import itertools
import math
import random
from collections import Counter
from fractions import Fraction

import numpy as np

from vlib import nn

RULE = ("cells = (configuration, null population or null law); every distinct ordering / every sequence of the cell is "
        "executed; a cell is non-trivial if the population is non-constant and some ordering gives q < 1; distinct = "
        "hash of (configuration, sorted population | law, n)")
REQUIRED = ["cells:perm", "cells:perm_largeN_few_minority", "cells:iid", "cells:audit", "audit_orderings_run", "orderings_run", "sequences_run", "cells_where_test_can_reject", "cells_with_a_look_after_every_draw_on_one_buffer", "cells_relying_on_the_default_alternative",
            "cells_relying_on_the_default_alternative:null_mean_well_above_one_half",
            "sprt_cells_with_alternative_not_above_the_null_mean",
            "cells_boundary_mean"] + \
           [f"perm:{nn.label({'test': a, 'estim': b, 'bet': c})}" for a, b, c in nn.COMBOS
            if a not in ("kaplan_markov", "kaplan_wald")] + \
           [f"iid:{nn.label({'test': a, 'estim': b, 'bet': c})}" for a, b, c in nn.COMBOS if a != "kaplan_kolmogorov"]
ASSUMPTIONS = ["populations and laws use dyadic values so that totals are exact in float arithmetic in any order "
               "(DESIGN 3.2): a population is a null population in the arithmetic the code itself uses",
               "tolerance only on the final comparison: F(alpha) <= alpha(1+1e-9)+1e-12",
               "N <= 8 (quick) / <= 11 for 2-3-valued populations (thorough) exhaustively, plus N in {12,16,24,32} for "
               "populations with at most 3 minority values (<= 4960 orderings); other large N only through the Monte-Carlo "
               "cell of the thorough tier with a stated 1e-9 false-alarm bound per cell"]
EXHAUSTIVE = "every cell enumerates all distinct orderings of its population (M1) or all k^n sequences of its law (M2)"
SHARD_TIMEOUT = {"quick": 1200, "thorough": 14000}
BUDGET = {"quick": {"perm_cells": 9600, "iid_cells": 3200, "nmax": 8, "iid_n": (5, 7), "mc_cells": 0, "audit_cells": 160, "audit_n": 6},
          "thorough": {"perm_cells": 40000, "iid_cells": 12000, "nmax": 11, "iid_n": (6, 9), "mc_cells": 96, "audit_cells": 1600, "audit_n": 7}}
PERM_COMBOS = [c for c in nn.COMBOS if c[0] not in ("kaplan_markov", "kaplan_wald")]
IID_COMBOS = [c for c in nn.COMBOS if c[0] != "kaplan_kolmogorov"]


def plan(tier, seed):
    shards = 16
    b = BUDGET[tier]
    out = [{"perm_cells": b["perm_cells"] // shards, "iid_cells": b["iid_cells"] // shards, "mc_cells": 0,
            "audit_cells": b["audit_cells"] // shards, "audit_n": b["audit_n"],
            "nmax": b["nmax"], "iid_n": list(b["iid_n"]), "shard": i} for i in range(shards)]
    if b["mc_cells"]:
        per = b["mc_cells"] // shards
        for s in out:
            s["mc_cells"] = per
    return out


# ---------------------------------------------------------------------------------------------------------
def distinct_orderings(pop):
    """All distinct orderings of a multiset (each represents the same number of permutations)."""
    cnt = Counter(pop)
    keys = sorted(cnt)
    n = len(pop)
    cur = []

    def rec():
        if len(cur) == n:
            yield list(cur)
            return
        for k in keys:
            if cnt[k]:
                cnt[k] -= 1
                cur.append(k)
                yield from rec()
                cur.pop()
                cnt[k] += 1
    yield from rec()


def n_distinct(pop):
    r = math.factorial(len(pop))
    for c in Counter(pop).values():
        r //= math.factorial(c)
    return r


def gen_population(rng, u, t, N, stratum):
    """A null population (sum <= N t) of dyadic values in [0,u]."""
    step = u / 8
    grid = [0.0, u / 4, u / 2, 3 * u / 4, u]
    if stratum == "all_t":
        return [t] * N
    if stratum == "two_point":
        k = int(math.floor(N * t / u))
        pop = [u] * k + [0.0] * (N - k)
        rest = N * t - k * u
        if rest > 0 and N - k > 0 and rest <= u:
            pop[k] = rest if (rest / step) == int(rest / step) else math.floor(rest / step) * step
        return pop
    if stratum == "one_large":
        pop = [0.0] * N
        pop[0] = min(u, math.floor(N * t / step) * step)
        return pop
    if stratum == "far_below":
        pop = [rng.choice((0.0, 0.0, 0.0, u / 4)) for _ in range(N)]
        while sum(pop) > N * t:
            pop[max(range(N), key=lambda j: pop[j])] = 0.0
        return pop
    if stratum == "three_point":
        vals = [0.0, u / 2, u]
    elif stratum == "around_t":
        d = rng.choice((t / 2, t / 4, t))
        d = min(d, u - t)
        vals = [t - d, t, t + d]
    elif stratum == "comparison_like":
        base = rng.choice((u / 2, t))
        vals = [base, base, base, 0.0, u / 4, u]
    else:
        vals = grid + [t]
    pop = [rng.choice(vals) for _ in range(N)]
    # enforce the null: lower the largest values until the total is <= N t
    while sum(pop) > N * t:
        i = max(range(N), key=lambda j: pop[j])
        pop[i] = max(0.0, pop[i] - step * rng.randint(1, 8))
    # with probability 0.7 top up towards the boundary mean
    if rng.random() < 0.7:
        for _ in range(4 * N):
            room = N * t - sum(pop)
            if room < step:
                break
            i = rng.randrange(N)
            add = min(math.floor(room / step), rng.randint(1, 4)) * step
            if pop[i] + add <= u:
                pop[i] += add
    return [float(v) for v in pop]


POP_STRATA = ("all_t", "two_point", "one_large", "far_below", "three_point", "around_t", "comparison_like", "random",
              "random", "three_point", "two_point")


def gen_law(rng, u, t):
    """Atoms (dyadic) and dyadic weights with mean <= t."""
    for _ in range(200):
        k = rng.choice((2, 2, 3))
        atoms = sorted(set(rng.choice((0.0, u / 4, u / 2, 3 * u / 4, u, t, t / 2)) for _ in range(k)))
        if len(atoms) < 2:
            continue
        w = [rng.randint(1, 7) for _ in atoms]
        tot = sum(w)
        if tot not in (2, 4, 8, 16):
            continue
        ws = [Fraction(a, tot) for a in w]
        mean = sum(Fraction(a) * b for a, b in zip(atoms, ws))
        if mean <= Fraction(t):
            return atoms, ws
    return [0.0, u], [Fraction(1) - Fraction(t) / Fraction(u), Fraction(t) / Fraction(u)]


def run_shard(spec, rec):
    rng = random.Random(f"c01-{spec['seed']}-{spec['shard']}")
    for i in range(spec["perm_cells"]):
        combo = PERM_COMBOS[i % len(PERM_COMBOS)]
        cfg = nn.gen_cfg(rng, combo=combo, finite=True, allow_not_random=False, allow_default_eta=True)
        st = POP_STRATA[(i // len(PERM_COMBOS)) % len(POP_STRATA)]
        u, t = cfg["u"], cfg["t"]
        # size: up to nmax, but keep the number of distinct orderings bounded
        for _ in range(50):
            N = rng.randint(1, spec["nmax"]) if rng.random() < 0.85 else rng.choice((1, 2))
            pop = gen_population(rng, u, t, N, st)
            if n_distinct(pop) <= (2600 if spec["tier"] == "quick" else 35000):
                break
        cfg["N"] = N
        if combo[0] == "wald_sprt" and "eta" in cfg["kw"] and rng.random() < 0.15:
            cfg["kw"]["eta"] = t * rng.choice((1.0, 0.75, 0.5, 0.25))
            cfg["eta_not_above_t"] = True
        run_case({"kind": "perm", "cfg": cfg, "pop": sorted(pop), "stratum": st,
                  "looks": n_distinct(pop) <= 800 and rng.random() < 0.2}, rec)
    # larger N where the orderings are still enumerable: a few minority values among N-k equal ones (N up to 32,
    # k <= 3: at most C(32,3) = 4960 distinct orderings), null mean exactly at or just below t, t up to 15/16
    for i in range(spec["perm_cells"] // 8):
        combo = PERM_COMBOS[i % len(PERM_COMBOS)]
        N = rng.choice((12, 16, 16, 24, 32))
        k = rng.choice((1, 2, 3, 3))
        u = rng.choice((1.0, 1.0, 1.0625, 1.5))
        major, minor = rng.choice(((u, 0.0), (u, 0.0), (u, u / 2), (u / 2, 0.0), (u / 2, u)))
        pop = [major] * (N - k) + [minor] * k
        if rng.random() < 0.3:
            pop[0] = rng.choice((0.0, u / 2, u))
        tot = sum(pop)
        # smallest multiple of 1/16 that makes the population null, sometimes one step above
        t = math.ceil(tot / N * 16) / 16 + (0.0625 if rng.random() < 0.25 else 0.0)
        if not (0 < t < u) or tot > N * t:
            continue
        cfg = nn.gen_cfg(rng, combo=combo, finite=True, allow_not_random=False, u=u, t=t)
        cfg["N"] = N
        cfg["u"] = u   # gen_cfg may pick another u for optimal_comparison: the population fixes it here
        if "eta" in cfg["kw"] and not (t < cfg["kw"]["eta"] < u):
            cfg["kw"]["eta"] = (t + u) / 2
        if combo[1] == "shrink_trunc" and rng.random() < 0.6:
            # the regime where the estimate really moves with the data: weight on u through the running sd (f > 0),
            # slow shrinkage, tiny floor above the null mean, alternative close to u
            cfg["kw"].update(f=rng.choice((0.25, 0.5, 1.0)), d=rng.choice((100.0, 128.0)), c=rng.choice((2.0 ** -10, 2.0 ** -20)),
                             eta=u - (u - t) * rng.choice((0.25, 0.5)))
        if combo[2] == "agrapa" and rng.random() < 0.5:
            cfg["kw"].update(c_grapa_0=0.75, c_grapa_max=1 - nn.EPS, c_grapa_grow=rng.choice((1, 10)))
        if n_distinct(pop) > 6000:
            continue
        rec.count("cells:perm_largeN_few_minority")
        run_case({"kind": "perm", "cfg": cfg, "pop": sorted(pop), "stratum": "largeN_few_minority"}, rec)
    for i in range(spec["iid_cells"]):
        combo = IID_COMBOS[i % len(IID_COMBOS)]
        cfg = nn.gen_cfg(rng, combo=combo, finite=False, allow_not_random=False, allow_default_eta=True)
        atoms, ws = gen_law(rng, cfg["u"], cfg["t"])
        n = rng.randint(1, spec["iid_n"][1] if len(atoms) == 2 else spec["iid_n"][0])
        run_case({"kind": "iid", "cfg": cfg, "atoms": atoms, "weights": [[w.numerator, w.denominator] for w in ws],
                  "n": n, "looks": len(atoms) ** n <= 800 and rng.random() < 0.25}, rec)
    for i in range(spec.get("audit_cells", 0)):
        run_case(gen_audit_cell(rng, spec["audit_n"]), rec)
    for i in range(spec.get("mc_cells", 0)):
        combo = nn.COMBOS[(i + spec["shard"]) % len(nn.COMBOS)]
        finite = combo[0] not in ("kaplan_markov", "kaplan_wald")
        cfg = nn.gen_cfg(rng, combo=combo, finite=finite, allow_not_random=False,
                         u=rng.choice((1.0, 1.0625, 1.5)), t=0.5)
        N = rng.choice((200, 1000))
        st = rng.choice(("two_point", "three_point", "comparison_like", "far_below", "random"))
        pop = gen_population(rng, cfg["u"], cfg["t"], N, st)
        if finite:
            cfg["N"] = N
        run_case({"kind": "mc", "cfg": cfg, "pop": sorted(pop), "reps": 20000, "mcseed": rng.randrange(2 ** 31),
                  "stratum": st}, rec)


def evaluate(rec, lab, obj, seq, looks):
    """The smallest p-value an auditor sees on this sequence.  looks=False: one call on the whole sequence (overall value
    and every history entry).  looks=True: the sample sits in ONE buffer and the test is asked again after every draw on
    the growing prefix of that buffer, as an audit does round after round; the auditor stops at the first look with
    p <= alpha, so the smallest over looks is what must be controlled (for a null population no prefix total exceeds
    N t, so this equals the single-call value whenever calls are side-effect free and non-anticipating)."""
    if not looks:
        ok, res = rec.guard(f"c01.call:{lab}", obj.test, np.array(seq, dtype=float))
        return (ok, q_of(res) if ok else None)
    buf = np.array(seq, dtype=float)
    q = 1.0
    for k in range(1, len(seq) + 1):
        ok, res = rec.guard(f"c01.call:{lab}", obj.test, buf[:k])
        if not ok:
            return False, None
        q = min(q, q_of(res))
    return True, q


def q_of(res):
    p, h = res
    vals = [float(p)] + [float(v) for v in np.asarray(h, dtype=float)]
    vals = [v for v in vals if v == v]
    return min(vals) if vals else 1.0


def first_excess(qw, total):
    """qw: list of (q, weight); returns (alpha, mass) for the first attained alpha < 1 with mass > alpha, else None."""
    qw = sorted(qw, key=lambda z: z[0])
    cum = 0
    i = 0
    worst = None
    while i < len(qw):
        a = qw[i][0]
        while i < len(qw) and qw[i][0] == a:
            cum += qw[i][1]
            i += 1
        if a >= 1:
            break
        frac = cum / total
        if float(frac) > max(a, 0.0) * (1 + 1e-9) + 1e-12:
            if worst is None or float(frac) - a > worst[1] - worst[0]:
                worst = (a, float(frac), int(cum) if isinstance(cum, int) else float(cum))
    return worst


def run_case(case, rec):
    kind = case["kind"]
    if kind == "audit":
        return run_audit_cell(case, rec)
    cfg = case["cfg"]
    lab = nn.label(cfg)
    obj = nn.build(cfg)
    u, t = cfg["u"], cfg["t"]
    if cfg.get("eta_not_above_t"):
        # an SPRT whose alternative is at or below the null mean is not a test of "mean <= t" (its statistic grows on
        # small values): the library must either refuse the configuration or still keep the level - the cell decides
        rec.count("sprt_cells_with_alternative_not_above_the_null_mean")
        try:
            obj.test(np.array([float(t)]))
        except ValueError:
            rec.count("sprt_alternative_not_above_the_null_mean_refused")
            rec.case(case, nontrivial=False)
            return
    if kind == "perm":
        pop = [float(v) for v in case["pop"]]
        N = len(pop)
        assert nn.cfgN(cfg) == N
        assert sum(pop) <= N * t and all(0 <= v <= u for v in pop), "generator produced a non-null population"
        qw = []
        n_ord = 0
        with np.errstate(all="ignore"):
            for o in distinct_orderings(pop):
                ok, q = evaluate(rec, lab, obj, o, case.get("looks"))
                if not ok:
                    return
                n_ord += 1
                qw.append((q, 1, o))
        rec.count("orderings_run", n_ord)
        if case.get("looks"):
            rec.count("cells_with_a_look_after_every_draw_on_one_buffer")
        rec.count("cells:perm")
        rec.count(f"perm:{lab}")
        if cfg.get("default_eta"):
            rec.count("cells_relying_on_the_default_alternative")
            if t > (0.5 + u) / 2:
                rec.count("cells_relying_on_the_default_alternative:null_mean_well_above_one_half")
        can_reject = any(q < 1 for q, _, _ in qw)
        if can_reject:
            rec.count("cells_where_test_can_reject")
        if sum(pop) == N * t:
            rec.count("cells_boundary_mean")
        rec.case(case, nontrivial=(len(set(pop)) > 1 and can_reject))
        bad = first_excess([(q, w) for q, w, _ in qw], n_ord)
        if bad:
            a, frac, cnt = bad
            wit = [o for q, _, o in qw if q <= a][:3]
            rec.violation("c01.perm", f"{lab}:excess_rejection_probability",
                          {"alpha": a, "P(q<=alpha)": frac, "orderings_rejecting": cnt, "orderings": n_ord,
                           "population": pop, "example_orderings": wit})
    elif kind == "iid":
        atoms = [float(a) for a in case["atoms"]]
        ws = [Fraction(a, b) for a, b in case["weights"]]
        n = int(case["n"])
        assert sum(Fraction(a) * w for a, w in zip(atoms, ws)) <= Fraction(t)
        qw = []
        with np.errstate(all="ignore"):
            for idx in itertools.product(range(len(atoms)), repeat=n):
                seq = [atoms[i] for i in idx]
                ok, q = evaluate(rec, lab, obj, seq, case.get("looks"))
                if not ok:
                    return
                w = Fraction(1)
                for i in idx:
                    w *= ws[i]
                qw.append((q, w, seq))
        rec.count("sequences_run", len(qw))
        if case.get("looks"):
            rec.count("cells_with_a_look_after_every_draw_on_one_buffer")
        rec.count("cells:iid")
        rec.count(f"iid:{lab}")
        if cfg.get("default_eta"):
            rec.count("cells_relying_on_the_default_alternative")
        can_reject = any(q < 1 for q, _, _ in qw)
        if can_reject:
            rec.count("cells_where_test_can_reject")
        if sum(Fraction(a) * w for a, w in zip(atoms, ws)) == Fraction(t):
            rec.count("cells_boundary_mean")
        rec.case(case, nontrivial=can_reject)
        bad = first_excess([(q, w) for q, w, _ in qw], Fraction(1))
        if bad:
            a, frac, _ = bad
            wit = [s for q, _, s in qw if q <= a][:3]
            rec.violation("c01.iid", f"{lab}:excess_rejection_probability",
                          {"alpha": a, "P(q<=alpha)": frac, "atoms": atoms, "weights": [str(w) for w in ws], "n": n,
                           "example_sequences": wit})
    elif kind == "mc":
        run_mc(case, rec, obj, lab)


def binom_tail(n, p, k):
    """P(Bin(n,p) >= k), exact summation in log space."""
    if k <= 0:
        return 1.0
    lp, lq = math.log(p), math.log1p(-p)
    tot = 0.0
    for i in range(k, n + 1):
        lg = math.lgamma(n + 1) - math.lgamma(i + 1) - math.lgamma(n - i + 1) + i * lp + (n - i) * lq
        term = math.exp(lg)
        tot += term
        if term < 1e-30 and i > n * p:
            break
    return min(1.0, tot)


def run_mc(case, rec, obj, lab):
    pop = np.array([float(v) for v in case["pop"]])
    cfg = case["cfg"]
    finite = math.isfinite(nn.cfgN(cfg))
    prng = np.random.RandomState(case["mcseed"])
    reps = int(case["reps"])
    n_draw = len(pop) if finite else 60
    qs = np.empty(reps)
    with np.errstate(all="ignore"):
        for r in range(reps):
            x = prng.permutation(pop) if finite else prng.choice(pop, size=n_draw, replace=True)
            ok, res = rec.guard(f"c01.call:{lab}", obj.test, x)
            if not ok:
                return
            qs[r] = q_of(res)
    rec.count("cells:mc")
    rec.count("mc_runs", reps)
    rec.case(case, nontrivial=bool(np.any(qs < 1)))
    for a in (0.01, 0.05, 0.1, 0.3):
        k = int(np.sum(qs <= a))
        tail = binom_tail(reps, a, k)
        if tail < 1e-9:
            rec.violation("c01.mc", f"{lab}:excess_rejection_probability_largeN",
                          {"alpha": a, "rejections": k, "reps": reps, "binomial_tail": tail, "N": len(pop),
                           "population_counts": {str(k_): int(v) for k_, v in Counter(pop.tolist()).items()}})
            break


# ---- M4: audit-level exact count -----------------------------------------------------------------------------------
def gen_audit_cell(rng, nmax):
    """A tiny card-comparison audit whose REPORTED outcome is wrong: the CVRs say `a` beat `b`, the cards themselves say
    b has at least as many votes.  Every ordering of the cards is audited through the real mvrs_to_data / set_p_values /
    summarize_status; the fraction of orderings in which the audit completes must not exceed the risk limit."""
    from vlib import election as E
    n = rng.randint(3, nmax)
    kind = rng.choice(("plurality", "plurality", "supermajority"))
    share = rng.choice((0.5, 0.25)) if kind == "supermajority" else None
    at = rng.choice(("CARD_COMPARISON", "CARD_COMPARISON", "ONEAUDIT"))
    test, estim, bet, kw = rng.choice(E.TESTS_FOR[at])
    if bet == "fixed_bet" and share is not None:
        kw = {"lam": min(0.5, share)}   # lambda <= 1/u for every u the audit can install (u <= 2 u_a = 1/f)
    true_votes = []
    # truth: b >= a (plurality) / a <= share of valid votes (super-majority)
    nb = rng.randint((n + 1) // 2, n)
    for i in range(n):
        true_votes.append({"1b": 1} if i < nb else rng.choice(({"1a": 1}, {"1a": 1}, {})))
    rng.shuffle(true_votes)
    cards = []
    for i, tv in enumerate(true_votes):
        # the CVR overstates a: some true b / blank votes are recorded as a
        cv = {"1a": 1} if rng.random() < 0.75 else dict(tv)
        cards.append({"id": f"1-1-{i + 1}", "votes": {"con1": cv}, "tally_pool": "1-1", "pool": (at == "ONEAUDIT" and rng.random() < 0.5)})
    if at == "ONEAUDIT":
        p0 = cards[0]["pool"]
        for cd in cards:
            cd["pool"] = p0
    spec = {"use_style": rng.random() < 0.5, "max_cards": n,
            "contests": {"con1": {"kind": kind, "candidates": ["1a", "1b"], "winner": ["1a"], "n_winners": 1, "share": share,
                                  "risk_limit": rng.choice((0.05, 0.1, 0.2, 0.5)), "audit_type": at, "test": test, "estim": estim,
                                  "bet": bet, "test_kwargs": dict(kw), "cards": n}},
            "cards": cards, "phantom_pool": [None, False],
            "mvrs": {str(i): {"kind": "votes", "votes": {"con1": tv}} for i, tv in enumerate(true_votes)},
            "sample_nums": {"kind": "explicit", "nums": None}, "sn_mode": "list_order"}
    if rng.random() < 0.2:
        spec["mvrs"][str(rng.randrange(n))] = {"kind": "phantom"}
    return {"kind": "audit", "spec": spec}


def run_audit_cell(case, rec):
    import contextlib
    import io
    from vlib import election as E
    es = case["spec"]
    ok, sim = rec.guard("c01.audit.setup", lambda: E.Sim(es).setup())
    if not ok:
        rec.case(case, nontrivial=False)
        return
    con = sim.contests["con1"]
    n = len(sim.cvr_list)
    # is the assertion really false for the cards (oracle)?  mean of the reference assorter over the manual records <= 1/2
    name, asn = next(iter(con.assertions.items()))
    Abar = sum(sim.ref_A(i, "con1", name) for i in range(n)) / n
    if Abar > 0.5:
        rec.case(case, nontrivial=False)
        rec.count("audit_cells_outcome_actually_right_skipped")
        return
    A = sim.L["Assertion"]
    mv = [sim.mvr_for(i) for i in range(n)]
    for i, c in enumerate(sim.cvr_list):
        c.sample_num = i
    con.sample_size = n
    con.sample_threshold = n
    # The population handed to the test must be a null population *in the arithmetic the code itself uses* (DESIGN 3.2):
    # overstatement-assorter values are rarely dyadic, and at the exact boundary mean = 1/2 a float total can exceed N t
    # by an ulp on some orderings (the library then reports p = 0: rounding, not a refutation).  The cell is used only if
    # the exact (rational) total of the float data is below N t by a margin rounding cannot bridge, or the data are
    # dyadic and the total is exactly N t.
    with np.errstate(all="ignore"):
        ok, du = rec.guard("c01.audit.call:mvrs_to_data", asn.mvrs_to_data, mv, list(sim.cvr_list))
    if not ok:
        return
    dvals = [float(v) for v in du[0]]
    exact_total = sum(Fraction(v) for v in dvals)
    Nt = Fraction(len(dvals)) * Fraction(asn.test.t)
    dyadic = all((v * 2 ** 20).is_integer() for v in dvals)
    if not (Nt - exact_total >= Fraction(1, 10 ** 9) or (exact_total == Nt and dyadic)):
        rec.case(case, nontrivial=False)
        rec.count("audit_cells_boundary_not_exactly_representable_skipped")
        return
    if exact_total == Nt:
        rec.count("audit_cells_exact_boundary")
    sink = io.StringIO()
    qw, done_count, n_ord = [], 0, 0
    labels = [repr((sorted(sim.cvr_list[i].votes.get("con1", {}).items()), sorted((mv[i].votes.get("con1") or {}).items()), mv[i].phantom, sim.cvr_list[i].pool)) for i in range(n)]
    with np.errstate(all="ignore"), contextlib.redirect_stdout(sink):
        for o in distinct_orderings(labels):
            # map the ordering of labels back to card indices (cards with equal labels are interchangeable)
            pool_ix = {}
            for i, l in enumerate(labels):
                pool_ix.setdefault(l, []).append(i)
            idx = [pool_ix[l].pop(0) for l in o]
            m = [mv[i] for i in idx]
            c = [sim.cvr_list[i] for i in idx]
            A.reset_p_values(sim.contests)
            ok, _ = rec.guard("c01.audit.call:set_p_values", A.set_p_values, sim.contests, m, c)
            if not ok:
                return
            ok, done = rec.guard("c01.audit.call:summarize_status", sim.audit.summarize_status, sim.contests)
            if not ok:
                return
            hs = [float(v) for v in np.asarray(asn.p_history, dtype=float) if v == v]
            q = min([float(asn.p_value)] + hs) if (asn.p_value == asn.p_value) else (min(hs) if hs else 1.0)
            qw.append((q, 1, idx))
            done_count += 1 if done else 0
            n_ord += 1
    rec.count("cells:audit")
    rec.count("audit_orderings_run", n_ord)
    can = any(q < 1 for q, _, _ in qw)
    rec.case(case, nontrivial=can, sample={"n": n, "contest": {k: es["contests"]["con1"][k] for k in ("kind", "audit_type", "test", "estim", "bet", "risk_limit")},
                                            "cvrs": [c["votes"] for c in es["cards"]], "truth": [es["mvrs"][str(i)] for i in range(n)]})
    if can:
        rec.count("cells_where_test_can_reject")
    lab = f"audit:{es['contests']['con1']['test']}" + (":" + es["contests"]["con1"]["estim"] if es["contests"]["con1"]["estim"] else "") + \
          (":" + es["contests"]["con1"]["bet"] if es["contests"]["con1"]["bet"] else "")
    rl = con.risk_limit
    if done_count / n_ord > rl * (1 + 1e-9) + 1e-12:
        rec.violation("c01.audit", f"{lab}:wrong_outcome_confirmed_too_often",
                      {"risk_limit": rl, "fraction_of_orderings_completing": done_count / n_ord, "orderings": n_ord,
                       "assorter_mean_of_the_cards": Abar})
        return
    bad = first_excess([(q, w) for q, w, _ in qw], n_ord)
    if bad:
        a, frac, cnt = bad
        rec.violation("c01.audit", f"{lab}:excess_rejection_probability", {"alpha": a, "P(q<=alpha)": frac, "orderings": n_ord,
                                                                          "assorter_mean_of_the_cards": Abar})
