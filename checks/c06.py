"""C06 — data handed to a test always lie inside the bound the test is told.

Runtime contracts installed on the real functions (armed for every call made by the workload):
  c06.data     Assertion.mvrs_to_data (post): every returned datum is in [0, u]; u is the assorter's bound (polling) or
               2/(2 - v/u_assorter) (comparison, ONEAudit) with v and u_assorter read from the assertion; under style,
               the contributing positions are exactly those whose CVR lists the contest and whose sample number is within
               the contest's threshold, in sample order (each value recomputed from the real overstatement assorter).
  c06.install  Assertion.set_p_values (post): afterwards every assertion's test.u equals the u that a fresh,
               side-effect-free mvrs_to_data call returns.
  c06.margin   Assertion.set_margin_from_cvrs / set_all_margins_from_cvrs (post): test.u equals the audit-type formula.
Workload: the election simulator with maximal over- and understatements, phantoms, missing contests, pooled CVRs,
super-majority shares from 0.1 to 0.9, IRV assertions, polling / comparison / ONEAudit, style on and off.
"""
import math
import random

import numpy as np

from vlib import contracts
from vlib import election as E

RULE = ("simulated elections driven through consistent_sampling -> prep_comparison_sample -> set_p_values; one case = one "
        "election + sample (stale test bounds and margins revised after they were set, in 30 % each); non-trivial = some assertion saw a discrepancy (a datum different from the error-free value) "
        "and, under style, at least one sampled card was filtered out for some contest; distinct = hash of (spec, sizes)")
REQUIRED = ["contract:Assertion.mvrs_to_data", "contract:Assertion.set_p_values", "contract:Assertion.set_margin_from_cvrs",
            "data_values_checked", "u_checked:POLLING", "u_checked:CARD_COMPARISON", "u_checked:ONEAUDIT",
            "datum_equal_to_u_seen", "datum_zero_seen", "style_filter_checked", "cards_filtered_out_by_style",
            "test_u_checked", "positive_margin_assertions", "supermajority_u_assorter_not_1",
            "stratum:uniform_pool_nonrepresentable_bound", "u_at_test_time_checked", "stale_u_before_set_p_values",
            "margin_revised_after_set_margin_from_cvrs", "assorters_evaluated_on_all_cards_before_the_audit", "samples_with_an_unnumbered_record_probed", "data_of_the_whole_list_requested_with_use_all",
            "sample_handed_over_in_another_order_than_sample_number_order"]
ASSUMPTIONS = ["sample_threshold has been set by a draw (n_c >= 1) before mvrs_to_data is called under style",
               "the bound clause is asserted for every margin the simulator produces (also non-positive ones: the data are "
               "still inside [0,u])"]
N_CASES = {"quick": 19200, "thorough": 153600}


def _aud(self):
    return self.contest.audit_type


def post_mvrs_to_data(rec, result, a, k, old):
    self = a[0]
    mvr_sample = k.get("mvr_sample", a[1] if len(a) > 1 else None)
    cvr_sample = k.get("cvr_sample", a[2] if len(a) > 2 else None)
    use_all = k.get("use_all", a[3] if len(a) > 3 else False)
    case = rec.current_case
    try:
        d, u = result
    except Exception:
        rec.violation("c06.data", "not_a_pair", {"result": repr(result)[:80]}, case)
        return
    at = _aud(self)
    ua = self.assorter.upper_bound
    want_u = ua if at == "POLLING" else 2 / (2 - self.margin / ua)
    rec.count(f"u_checked:{at}")
    if self.margin is not None and self.margin > 0:
        rec.count("positive_margin_assertions")
    if ua != 1:
        rec.count("supermajority_u_assorter_not_1")
    if not math.isclose(u, want_u, rel_tol=1e-12, abs_tol=0):
        rec.violation("c06.data", f"{at}:returned_u_is_not_the_bound", {"u": u, "expected": want_u, "margin": self.margin,
                                                                        "assorter_upper_bound": ua}, case)
        return
    d = np.asarray(d, dtype=float)
    rec.count("data_values_checked", int(d.size))
    # exact bounds: every operation on the way is monotone under IEEE rounding (assort <= u_a, pool means clamped to
    # u_a, one division by the same positive denominator that defines u), and the tests themselves reject x < 0 or x > u
    if d.size and (np.any(np.isnan(d)) or d.min() < 0 or d.max() > u):
        j = int(np.argmax(np.isnan(d) | (d < 0) | (d > u)))
        rec.violation("c06.data", f"{at}:datum_outside_0_u", {"datum": float(d[j]), "u": u, "index": j, "margin": self.margin,
                                                               "assorter_upper_bound": ua}, case)
        return
    if d.size and np.any(np.isclose(d, u, rtol=1e-12, atol=0)):
        rec.count("datum_equal_to_u_seen")
    if d.size and np.any(d == 0):
        rec.count("datum_zero_seen")
    con = self.contest
    if at != "POLLING" and cvr_sample is not None:
        if con.use_style:
            # which cards list the contest is taken from the reference population of the simulated election (own listing
            # or pool membership) when the workload provides it - not from the record objects, which a careless
            # evaluation may have changed in the meantime; under the repository's own suite: from the records
            sim = getattr(rec, "current_sim", None)
            if sim is not None and con.id in sim.contests:
                listed = {sim.cvr_list[i].id for i in sim.ref_population(con.id)}
                lists = lambda cv: cv.id in listed
            else:
                lists = lambda cv: cv.has_contest(con.id)
            pos = [i for i in range(len(mvr_sample))
                   if lists(cvr_sample[i]) and (use_all or (cvr_sample[i].sample_num is not None   # (no number: not shown to be within)
                                                            and cvr_sample[i].sample_num <= con.sample_threshold))]
            rec.count("style_filter_checked")
            rec.count("cards_filtered_out_by_style", len(mvr_sample) - len(pos))
        else:
            pos = list(range(len(mvr_sample)))
        if len(pos) != d.size:
            rec.violation("c06.data", f"{at}:wrong_cards_contribute", {"contributing": int(d.size), "qualifying": len(pos),
                                                                       "use_style": con.use_style}, case)
            return
        for j, i in enumerate(pos):
            w = self.overstatement_assorter(mvr_sample[i], cvr_sample[i], use_style=con.use_style)
            if not math.isclose(d[j], w, rel_tol=1e-12, abs_tol=1e-15):
                rec.violation("c06.data", f"{at}:data_not_in_sample_order_or_wrong_pair", {"position": j, "got": float(d[j]),
                                                                                             "expected": w}, case)
                return


CALLS = {}   # id(NonnegMean object) -> (u the object held when its test method was entered, largest datum it was given)


def pre_test_call(a, k):
    self, x = a[0], a[1]
    try:
        CALLS[id(self)] = (self.u, float(np.max(x)) if len(x) else None)
    except Exception:
        pass
    return None


def post_set_p_values(rec, result, a, k, old):
    contests = k.get("contests", a[1] if len(a) > 1 else None)
    mvr = k.get("mvr_sample", a[2] if len(a) > 2 else None)
    cvr = k.get("cvr_sample", a[3] if len(a) > 3 else None)
    for c, con in contests.items():
        for name, asn in con.assertions.items():
            d, u = asn.mvrs_to_data(mvr, cvr)
            rec.count("test_u_checked")
            seen = CALLS.get(id(asn.test))
            if seen is not None:
                rec.count("u_at_test_time_checked")
                if seen[0] != u:
                    rec.violation("c06.install", f"{con.audit_type}:test_ran_with_a_stale_u",
                                  {"contest": c, "assertion": name, "u_when_the_test_ran": seen[0], "u_returned_with_the_data": u,
                                   "largest_datum": seen[1]}, rec.current_case)
                    return
            if asn.test.u != u:
                rec.violation("c06.install", f"{con.audit_type}:test_u_not_installed", {"contest": c, "assertion": name,
                                                                                         "test.u": asn.test.u, "u": u},
                              rec.current_case)
                return


def post_set_margin(rec, result, a, k, old):
    self = a[0]
    at = _aud(self)
    ua = self.assorter.upper_bound
    want = ua if at == "POLLING" else 2 / (2 - self.margin / ua)
    if not math.isclose(self.test.u, want, rel_tol=1e-12, abs_tol=0):
        rec.violation("c06.margin", f"{at}:test_u_after_set_margin_wrong", {"test.u": self.test.u, "expected": want,
                                                                            "margin": self.margin, "assorter_upper_bound": ua},
                      rec.current_case)


def post_set_all_margins(rec, result, a, k, old):
    contests = k.get("contests", a[2] if len(a) > 2 else None)
    for c, con in contests.items():
        for name, asn in con.assertions.items():
            at = con.audit_type
            ua = asn.assorter.upper_bound
            want = ua if at == "POLLING" else 2 / (2 - asn.margin / ua)
            if not math.isclose(asn.test.u, want, rel_tol=1e-12, abs_tol=0):
                rec.violation("c06.margin", f"{at}:test_u_after_set_all_margins_wrong", {"contest": c, "assertion": name,
                                                                                          "test.u": asn.test.u, "expected": want},
                              rec.current_case)
                return


def install(rec):
    from shangrla.core.Audit import Assertion
    contracts.wrap(Assertion, "mvrs_to_data", rec, post=post_mvrs_to_data)
    contracts.wrap(Assertion, "set_p_values", rec, post=post_set_p_values)
    contracts.wrap(Assertion, "set_margin_from_cvrs", rec, post=post_set_margin)
    contracts.wrap(Assertion, "set_all_margins_from_cvrs", rec, post=post_set_all_margins)
    from shangrla.core.NonnegMean import NonnegMean
    for t in ("alpha_mart", "betting_mart", "kaplan_kolmogorov", "kaplan_markov", "kaplan_wald", "wald_sprt"):
        contracts.wrap(NonnegMean, t, rec, pre=pre_test_call, post=(lambda rec, result, a, k, old: None), label=f"NonnegMean.{t}@c06")


def plan(tier, seed):
    shards = 16
    shards_ = [{"n": N_CASES[tier] // shards, "shard": i} for i in range(shards)]
    # plus the repository's own test-suite run with this check's contracts armed (DESIGN 6.4)
    return shards_ + [{"kind": "suite", "shard": 99}]


def gen_sizes(rng, sim, mode=None):
    sizes = {}
    mode = mode or rng.choice(("ones", "all", "random", "random", "one_exhausted"))
    cids = list(sim.contests)
    for j, cid in enumerate(cids):
        n = sum(1 for c in sim.cvr_list if c.has_contest(cid)) if sim.use_style else len(sim.cvr_list)
        if n == 0:
            sizes[cid] = 0
        elif mode == "ones":
            sizes[cid] = 1
        elif mode == "all":
            sizes[cid] = n
        elif mode == "one_exhausted":
            sizes[cid] = n if j == 0 else 1
        elif mode == "some_zero":
            # a contest already confirmed (or not yet started) asks for no card while others still do
            sizes[cid] = 0 if (j % 2 == 0) == (n % 2 == 0) and j < len(cids) - 1 else rng.randint(1, n)
        else:
            sizes[cid] = rng.randint(1, n)
    if not sim.use_style:
        m = max(sizes.values())
        sizes = {c: m for c in sizes}   # without style the sample size is the same for every contest
    return sizes


def run_shard(spec, rec):
    if spec.get("kind") == "suite":
        from vlib import suite
        suite.run_suite("checks.c06", rec)
        return
    rng = random.Random(f"c06-{spec['seed']}-{spec['shard']}")
    for i in range(spec["n"]):
        es = E.gen_spec(rng, error_rate=rng.choice((0.2, 0.5, 1.0)))
        if i % 8 == 7:
            es = E.force_uniform_pool(rng, es)
            rec.count("stratum:uniform_pool_nonrepresentable_bound")
        es["_sizes_seed"] = rng.randrange(10 ** 9)
        run_case(es, rec)


def run_case(es, rec):
    rec.current_case = es
    ok, sim = rec.guard("c06.setup", lambda: E.Sim(es).setup())
    if not ok:
        rec.case(es, nontrivial=False, sample=brief(es))
        return
    rng = random.Random(es.get("_sizes_seed", 0))
    rec.current_sim = sim
    if rng.random() < 0.3:
        # a diluted-margin query before the audit: every assorter evaluated on EVERY card, also those lacking the contest
        # (use_style False); asking a question must not change the records
        with np.errstate(all="ignore"):
            for con in sim.contests.values():
                for asn in con.assertions.values():
                    ok, _ = rec.guard("c06.call:mean:no_style", asn.assorter.mean, sim.cvr_list, False)
                    if not ok:
                        return
        rec.count("assorters_evaluated_on_all_cards_before_the_audit")
    sim.assign_sample_nums()
    sizes = gen_sizes(rng, sim)
    sim.set_sizes(sizes)
    before = rec.counters.get("cards_filtered_out_by_style", 0)
    ok, idx = rec.guard("c06.call:consistent_sampling", sim.draw)
    if not ok:
        rec.case(es, nontrivial=False, sample=brief(es))
        return
    ok, ms = rec.guard("c06.call:prep_comparison_sample", sim.samples, list(idx))
    if not ok:
        return
    m, c = ms
    if rng.random() < 0.3 and len(m) > 2:
        # the sample in retrieval order rather than sample-number order (pairs stay matched)
        perm = list(range(len(m)))
        rng.shuffle(perm)
        m, c = [m[i] for i in perm], [c[i] for i in perm]
        rec.count("sample_handed_over_in_another_order_than_sample_number_order")
    if rng.random() < 0.3:
        # the bound the test object currently holds is stale (margins set by a route that does not write test.u, e.g.
        # find_margins_from_tally, or changed since): set_p_values must install the right one BEFORE running the test
        for con in sim.contests.values():
            for asn in con.assertions.values():
                asn.test.u = 1.0 if rng.random() < 0.7 else asn.test.u * 0.75
        rec.count("stale_u_before_set_p_values")
    if rng.random() < 0.3:
        # the margin is revised after it was computed from the CVRs, by a route other than set_margin_from_cvrs (a margin
        # taken from the reported tally, or a deliberately conservative one): data and bound must both follow the
        # margin the assertion holds NOW
        for con in sim.contests.values():
            for asn in con.assertions.values():
                if asn.margin is not None and asn.margin > 0:
                    asn.margin = asn.margin * rng.choice((0.25, 0.5, 0.9))
        rec.count("margin_revised_after_set_margin_from_cvrs")
    CALLS.clear()
    with np.errstate(all="ignore"):
        ok, pmax = rec.guard("c06.call:set_p_values", sim.L["Assertion"].set_p_values, sim.contests, m, c)
    if ok and rng.random() < 0.2:
        # the planning route: the data of the WHOLE list, thresholds lifted (use_all) - the style filter itself stays
        allm = [sim.mvr_for(i) for i in range(len(sim.cvr_list))]
        with np.errstate(all="ignore"):
            for con in sim.contests.values():
                if con.audit_type == sim.L["Audit"].AUDIT_TYPE.POLLING:
                    continue
                for asn in con.assertions.values():
                    ok2, _ = rec.guard("c06.call:mvrs_to_data:use_all", asn.mvrs_to_data, allm, sim.cvr_list, True)
                    if not ok2:
                        return
        rec.count("data_of_the_whole_list_requested_with_use_all")
    if ok and sim.use_style and rng.random() < 0.15:
        # a sampled record that carries no sample number (re-read from a file without the field, or made after the numbers
        # were assigned): it cannot be shown to lie within any contest's threshold, so it must not contribute - refusing
        # the sample is fine too
        for cid, con in sim.contests.items():
            if con.audit_type == sim.L["Audit"].AUDIT_TYPE.POLLING or con.sample_threshold is None:
                continue
            cands = [cv for cv in c if cv.has_contest(cid) and cv.sample_num is not None]
            if not cands:
                continue
            cv = max(cands, key=lambda z: z.sample_num)
            keep, cv.sample_num = cv.sample_num, rng.choice((None, float("nan")))   # (NaN: "not numbered" in a numeric column)
            rec.count("samples_with_an_unnumbered_record_probed")
            try:
                with np.errstate(all="ignore"):
                    for asn in con.assertions.values():
                        asn.mvrs_to_data(m, c)      # (the contract on mvrs_to_data decides which cards may contribute)
                rec.count("sample_with_an_unnumbered_record_accepted")
            except (TypeError, ValueError):
                rec.count("sample_with_an_unnumbered_record_refused")
            finally:
                cv.sample_num = keep
            break
    filtered = rec.counters.get("cards_filtered_out_by_style", 0) - before
    discrep = any(str(i) in es["mvrs"] for i in idx)
    rec.case(es, nontrivial=(discrep and (filtered > 0 or not sim.use_style)), sample=brief(es) | {"sizes": sizes})


def brief(es):
    return {"use_style": es["use_style"], "n_cards": len(es["cards"]),
            "contests": {k: {kk: v[kk] for kk in ("kind", "winner", "audit_type", "share", "test")} for k, v in es["contests"].items()},
            "n_discrepant_mvrs": len(es["mvrs"])}
