"""C13 — shipped estimators and bets keep every martingale factor non-negative.

Monitors
  c13.range   range contract on the values returned by the real bound estimator / bet:
              eta_j in [0,u], lambda_j in [0, 1/mu_j] wherever 0 < mu_j <= u; shrink_trunc > mu_j wherever mu_j < u.
  c13.sign    factor-sign observation: for the sample itself and for every one-step extension prefix+[v],
              v in {0, u, t, u/2}, no history entry of the product-form tests is negative (a negative factor makes
              min(1, 1/T_j) negative, so the sign is visible in the public return value).
"""
import math
import random

import numpy as np

from vlib import nn

RULE = ("stratified + seeded random (configuration, sample) pairs, parameters over the decades named in the property; "
        "non-trivial = the sample contains a run that moves the null conditional mean by more than 25% of t, or an "
        "extreme tuning parameter; distinct = hash of (configuration, sample)")
REQUIRED = ["range_checked:fixed_alternative_mean", "range_checked:shrink_trunc", "range_checked:optimal_comparison",
            "range_checked:fixed_bet", "range_checked:agrapa", "strictly_above_mu_checked", "sign_entries_checked",
            "one_step_extensions", "regime:fixed_alternative_impossible", "regime:margin_below_rate", "regime:optimal_comparison_u_le_1",
            "stratum:cap_binds_at_the_default_scale_then_zero", "stratum:very_small_null_mean", "stratum:null_mean_just_below_u", "stratum:null_mean_lands_exactly_on_u", "bets_equal_to_the_cap_at_the_default_scale", "configurations_whose_bound_is_not_a_dyadic_rational"]
ASSUMPTIONS = ["mu_j recomputed by an independent loop; 'mu_j < u' for the strict clause means mu_j < u(1 - 4 eps): the "
               "estimate is capped at u(1 - eps), so nothing can be strictly above a mean within an ulp or two of u", "fixed_bet's lambda is the user's; lambda <= 1/u is "
               "generated (the C01 quantifier)", "optimal_comparison mostly with u > 1 (comparison audits), u <= 1 in 20 % of its cases"]
N_CASES = {"quick": 128000, "thorough": 1200000}
RANGE_COMBOS = [c for c in nn.COMBOS if c[1] or c[2]] + [("wald_sprt", None, None), ("kaplan_kolmogorov", None, None)]


def plan(tier, seed):
    shards = 16
    return [{"n": N_CASES[tier] // shards, "shard": i} for i in range(shards)]


def runs_sample(rng, cfg):
    """Long runs of zeros / of u in a small population (the regime where a fixed alternative becomes impossible)."""
    N = nn.cfgN(cfg)
    cap = N if math.isfinite(N) else 12
    u = cfg["u"]
    x = []
    while len(x) < cap:
        v = rng.choice((0.0, 0.0, u, cfg["t"], u / 2))
        x.extend([v] * rng.randint(1, 6))
    n = rng.randint(1, cap)
    return x[:n]


def run_shard(spec, rec):
    rng = random.Random(f"c13-{spec['seed']}-{spec['shard']}")
    for i in range(spec["n"]):
        if i % 16 == 12:
            # the null conditional mean lands EXACTLY on u (the closed end of (0,u]) after high draws: N t - S_j = (N - j + 1) u
            # with exactly representable numbers; the bet for that draw is still bound by 1/mu_j = 1/u
            cfg = nn.gen_cfg(rng, combo=("betting_mart", None, "agrapa"), finite=True, allow_not_random=False)
            for k in ("u_built", "N_warm", "int_dtype", "reused", "kw_built"):
                cfg.pop(k, None)
            cfg["u"], cfg["t"] = 1.0, rng.choice((0.875, 0.75, 0.9375))
            N_ = rng.choice((4, 8, 16))
            cfg["N"] = N_
            r_ = rng.randint(1, max(1, int(N_ * (1 - cfg["t"]) * 2)))
            S_ = N_ * cfg["t"] - r_
            nb_ = N_ - r_
            if S_ >= 0 and nb_ >= 1 and S_ <= nb_:
                ones_ = int(S_)
                body = [1.0] * ones_ + ([S_ - ones_] if S_ != ones_ else [])
                body += [0.0] * (nb_ - len(body))
                body.sort(reverse=True)                 # high draws first: the running mean stays above the null mean
                x = body + [rng.choice((0.25, 0.0, 0.5))]
                if nn.in_domain(cfg, x):
                    rec.count("stratum:null_mean_lands_exactly_on_u")
                    run_case({"cfg": cfg, "x": x, "stratum": "null_mean_exactly_u"}, rec)
            continue
        if i % 16 == 13:
            # the null conditional mean climbs to just below u (within 1e-6, the band in which the tests set terms aside) but
            # stays below it: N/2 tiny positive draws at t = u/2.  "Strictly above mu_j wherever mu_j < u" is about the
            # estimator, whatever the test does with the term afterwards
            cfg = nn.gen_cfg(rng, combo=("alpha_mart", "shrink_trunc", None), finite=True, allow_not_random=False)
            for k in ("u_built", "N_warm", "int_dtype", "reused", "kw_built"):
                cfg.pop(k, None)
            cfg["u"], cfg["t"] = 1.0, 0.5
            cfg["N"] = 2 * rng.randint(3, 20)
            if "eta" in cfg["kw"]:
                cfg["kw"]["eta"] = rng.choice((0.625, 0.75, 0.875))
            tiny = 2.0 ** -rng.choice((25, 30, 40))
            x = [tiny] * (cfg["N"] // 2) + [rng.choice((tiny, 0.5))]
            if nn.in_domain(cfg, x):
                rec.count("stratum:null_mean_just_below_u")
                run_case({"cfg": cfg, "x": x, "stratum": "null_mean_just_below_u"}, rec)
            continue
        if i % 16 == 14:
            # a very small null mean (t = 2^-27 ... 2^-40; or what is left of N t after the early draws): 1/mu_j is huge, the
            # sample sits a little above mu_j with almost no variance, so the raw aGRAPA bet (~ 2/mu_j) needs its cap
            combo = rng.choice((("betting_mart", None, "agrapa"), ("betting_mart", None, "agrapa"), ("alpha_mart", "shrink_trunc", None),
                                ("alpha_mart", "fixed_alternative_mean", None)))
            cfg = nn.gen_cfg(rng, combo=combo, allow_not_random=False)
            for k in ("u_built", "N_warm", "int_dtype", "reused"):
                cfg.pop(k, None)
            cfg["u"] = 1.0
            cfg["t"] = 2.0 ** -rng.choice((27, 30, 34, 40))
            if "eta" in cfg["kw"]:
                cfg["kw"]["eta"] = cfg["t"] * rng.choice((1.5, 4.0, 2.0 ** 20))
            if "lam" in cfg["kw"]:
                cfg["kw"]["lam"] = rng.choice((0.5, 1.0, 2.0 ** 20))
            if cfg["N"] != "inf":
                cfg["N"] = rng.randint(6, 40)
            n = rng.randint(2, 5 if cfg["N"] == "inf" else cfg["N"] - 1)
            x = [cfg["t"] * rng.choice((1.25, 1.5, 1.5, 1.75)) for _ in range(n)] + [0.0]
            if nn.in_domain(cfg, x):
                rec.count("stratum:very_small_null_mean")
                run_case({"cfg": cfg, "x": x, "stratum": "very_small_null_mean"}, rec)
            continue
        if i % 16 == 15:
            # the regime where the aGRAPA cap c/mu_j binds with c at its default 1 - eps (one ulp of slack): a small
            # population, a null mean and observations that are not dyadic rationals, a low-variance sample a little
            # above the null mean, then a 0 - the factor for that 0 is 1 - lambda_j mu_j, non-negative only if the cap
            # is computed with the null mean the test itself uses
            cfg = nn.gen_cfg(rng, combo=("betting_mart", None, "agrapa"), finite=True, allow_not_random=False)
            for k in ("c_grapa_0", "c_grapa_max", "u_built", "N_warm", "int_dtype", "reused") + (("lam",) if rng.random() < 0.5 else ()):
                cfg["kw"].pop(k, None)
                cfg.pop(k, None)
            if rng.random() < 0.5:
                cfg["kw"]["c_grapa_0"] = cfg["kw"]["c_grapa_max"] = 1 - nn.EPS
            cfg["u"] = rng.choice((1.0, 1.0, 1.2, 2 / 1.9))
            cfg["t"] = rng.choice((0.6, 0.45, 0.3, 0.55, 0.5, 0.35))
            if "lam" in cfg["kw"]:
                cfg["kw"]["lam"] = 0.5 / cfg["u"]
            cfg["N"] = rng.randint(4, 30)
            n = rng.randint(2, cfg["N"] - 1)
            w = rng.choice((0.05, 0.1, 0.2))
            x = [min(cfg["u"], round(cfg["t"] + rng.random() * w, 2)) for _ in range(n)] + [0.0]
            if nn.in_domain(cfg, x):
                rec.count("stratum:cap_binds_at_the_default_scale_then_zero")
                run_case({"cfg": cfg, "x": x, "stratum": "cap_binds_then_zero"}, rec)
            continue
        combo = RANGE_COMBOS[i % len(RANGE_COMBOS)]
        cfg = nn.gen_cfg(rng, combo=combo, n_max=rng.choice((2, 4, 8, 12, 12, 40)), allow_not_random=False, nondyadic_u=0.15)
        if combo[1] == "optimal_comparison" and rng.random() < 0.5:
            # margins from 2^-20 to 1/2: u = 2/(2-v)
            v = rng.choice((2.0 ** -20, 2.0 ** -16, 2.0 ** -12, 2.0 ** -8, 2.0 ** -4, 0.25, 0.5, 2.0 ** -30, 2.0 ** -40, 2.0 ** -51))
            cfg["u"] = 2 / (2 - v)
        if rng.random() < 0.5:
            x = runs_sample(rng, cfg)
            st = "runs"
        else:
            st, x = nn.gen_sample(rng, cfg, n_max=40, nondyadic=0.25)
        if not nn.in_domain(cfg, x):
            continue
        run_case({"cfg": cfg, "x": x, "stratum": st}, rec)


def run_case(case, rec):
    cfg, x = case["cfg"], [float(v) for v in case["x"]]
    u, t = cfg["u"], cfg["t"]
    N = nn.cfgN(cfg)
    if (cfg["u"] * 2.0 ** 30) % 1 != 0:
        rec.count("configurations_whose_bound_is_not_a_dyadic_rational")
    mu = nn.ref_mu(x, N, t)
    moved = any(abs(m - t) > 0.25 * t for m in mu)
    rec.case(case, nontrivial=moved or len(set(x)) > 1)
    obj = nn.build(cfg)
    xa = nn.to_array(x, cfg)
    lab = nn.label(cfg)
    n = len(x)
    ok_idx = [j for j in range(n) if 0 < mu[j] <= u]
    with np.errstate(all="ignore"):
        if cfg.get("estim"):
            name = cfg["estim"]
            ok, e = rec.guard(f"c13.call:{name}", obj.estim, xa)
            if ok:
                e = np.asarray(e, dtype=float)
                e = np.full(n, float(e)) if e.ndim == 0 else e
                rec.count(f"range_checked:{name}")
                if name == "fixed_alternative_mean" and math.isfinite(N):
                    eta = cfg["kw"]["eta"]
                    raw = nn.ref_mu(x, N, eta)
                    if any(r < 0 or r > u for r in raw):
                        rec.count("regime:fixed_alternative_impossible")
                if name == "optimal_comparison" and u <= 1:
                    rec.count("regime:optimal_comparison_u_le_1")
                if name == "optimal_comparison":
                    p2 = cfg["kw"].get("rate_error_2", 1e-4)
                    if u > 1 and (1 - u * (1 - p2)) / (2 - 2 * u) + u * (1 - p2) - 0.5 < 0:
                        rec.count("regime:margin_below_rate")
                if len(e) != n:
                    rec.violation("c13.range", f"{name}:length", {"len": len(e), "n": n})
                else:
                    for j in ok_idx:
                        if math.isnan(e[j]):
                            rec.violation("c13.range", f"{name}:nan", {"index": j, "eta": e, "mu": mu})
                            break
                        if e[j] < 0 or e[j] > u:
                            rec.violation("c13.range", f"{name}:{'below_0' if e[j] < 0 else 'above_u'}",
                                          {"index": j, "eta_j": e[j], "u": u, "mu_j": mu[j], "eta": e})
                            break
                    if name == "shrink_trunc":
                        for j in range(n):
                            if mu[j] < u * (1 - 4 * nn.EPS):   # (the estimate is capped at u(1 - eps): strictness is possible below that)
                                rec.count("strictly_above_mu_checked")
                                if not e[j] > mu[j]:
                                    rec.violation("c13.range", "shrink_trunc:not_above_mu",
                                                  {"index": j, "eta_j": e[j], "mu_j": mu[j], "eta": e, "mu": mu})
                                    break
        if cfg.get("bet"):
            name = cfg["bet"]
            ok, l = rec.guard(f"c13.call:{name}", obj.bet, xa)
            if ok:
                l = np.asarray(l, dtype=float)
                l = np.full(n, float(l)) if l.ndim == 0 else l
                rec.count(f"range_checked:{name}")
                if len(l) != n:
                    rec.violation("c13.range", f"{name}:length", {"len": len(l), "n": n})
                else:
                    for j in ok_idx:
                        if math.isnan(l[j]):
                            rec.violation("c13.range", f"{name}:nan", {"index": j, "lam": l, "mu": mu})
                            break
                        if name == "agrapa" and l[j] * mu[j] > 1 - 4 * nn.EPS and "c_grapa_0" not in cfg["kw"] or cfg["kw"].get("c_grapa_0", 0) > 0.999:
                            if l[j] * mu[j] > 1 - 4 * nn.EPS:
                                rec.count("bets_equal_to_the_cap_at_the_default_scale")
                        if l[j] < 0 or l[j] > (1 / mu[j]) * (1 + 1e-12):
                            rec.violation("c13.range", f"{name}:{'negative' if l[j] < 0 else 'above_1_over_mu'}",
                                          {"index": j, "lam_j": l[j], "one_over_mu": 1 / mu[j], "lam": l, "mu": mu})
                            break
        # ---- factor signs, observed through the public history -------------------------------
        if cfg["test"] in nn.PRODUCT_TESTS:
            sign_check(rec, obj, lab, xa, mu, u)
            # one-step extensions from a random prefix: "whatever the next observation is"
            k = len(x) - 1
            if math.isfinite(N) and len(x) < N or not math.isfinite(N):
                k = len(x)
            pre = x[:k]
            mu_next = nn.ref_mu(pre + [0.0], N, t)[-1]
            if 0 < mu_next <= u:
                for v in (0.0, u, t, u / 2):
                    rec.count("one_step_extensions")
                    xe = np.array(pre + [v], dtype=float)
                    sign_check(rec, obj, lab, xe, nn.ref_mu(list(xe), N, t), u, only_last=True)


def sign_check(rec, obj, lab, xa, mu, u, only_last=False):
    ok, res = rec.guard(f"c13.call:{lab}", obj.test, xa)
    if not ok:
        return
    h = np.asarray(res[1], dtype=float)
    idx = range(len(h) - 1, len(h)) if only_last else range(len(h))
    first_neg_seen = False
    for j in idx:
        if j < len(mu) and 0 < mu[j] <= u:
            rec.count("sign_entries_checked")
        if h[j] < 0 and not first_neg_seen:
            first_neg_seen = True
            if j < len(mu) and 0 < mu[j] <= u:
                rec.violation("c13.sign", f"{lab}:negative_factor", {"index": j, "history": h, "x": xa, "mu": mu})
            else:
                # sign flipped while mu_j was already outside (0,u]: the property does not speak about that state
                rec.count("negative_entry_outside_mu_range")
