"""C15 — RAIRE's assertion set is the least difficult sufficient set (agap = 0).

Brute-force reference monitor: all true NEB/NEN assertions are enumerated with their difficulties (the shipped difficulty
function applied to recounted tallies); the optimum is  max over alternative elimination orders of the cheapest true
assertion contradicting that order  (= min over sufficient sets of the largest difficulty).  It is compared with
max(a.difficulty) over the list returned by the real compute_raire_assertions.
"""
import random

from checks import raire_common as rc
from vlib import irv

RULE = ("the C04 workload restricted to auditable profiles; n = 3..7 candidates (8 in the thorough tier), hints none/true/wrong, "
        "both difficulty functions; non-trivial = the optimum is attained by an assertion that is not the cheapest for "
        "every order (at least two distinct difficulties among the per-order optima); distinct = hash of the case")
REQUIRED = ["contest_object_reused_after_other_cvrs", "ballot_mappings_not_stored_in_preference_order", "ballots_whose_rank_numbers_have_holes", "optimum_compared", "hint:none", "hint:true", "hint:wrong", "asn:cp", "asn:bp", "asn:offset_inverse_margin", "runs_with_a_difficulty_function_that_is_not_shipped", "n_candidates:3",
            "n_candidates:4", "n_candidates:5", "n_candidates:6", "optimum_is_NEN", "optimum_is_NEB", "optimum_compared:large_electorate",
            "optimum_compared:distinct_difficulties_that_agree_to_five_digits"]
ASSUMPTIONS = ["difficulty functions decrease as the margin grows (both shipped ones do)", "ties in difficulty between "
               "different sets are irrelevant: only the value is compared (rtol 1e-9)"]
N_CASES = {"quick": 40000, "thorough": 500000}
SHARD_TIMEOUT = {"quick": 1500, "thorough": 14000}


def plan(tier, seed):
    shards = 16
    return [{"n": N_CASES[tier] // shards, "shard": i, "n_max": 5 if tier == "quick" else 6} for i in range(shards)]


def run_shard(spec, rec):
    rng = random.Random(f"c15-{spec['seed']}-{spec['shard']}")
    for i in range(1 if spec["tier"] == "quick" else 5):
        case = rc.gen_large_case(rng)
        rec.count("large_electorates")
        run_case(case, rec)
    for i in range(spec["n"]):
        case = rc.gen_case(rng, n=rc.pick_n(rng, spec["tier"], n_min=3))
        if rng.random() < 0.8:  # mostly auditable profiles: report the true winner
            cnt = irv.counter_of([tuple(b) if b is not None else None for b in case["ballots"]])
            case["winner"] = irv.irv_order(case["cands"], cnt)[-1]
            if case["order"]:
                case["order"] = [c for c in case["order"] if c != case["winner"]] + [case["winner"]]
        run_case(case, rec)


def run_case(case, rec):
    cands, winner = case["cands"], case["winner"]
    r = rc.run_raire(case, rec, "c15.call:compute_raire_assertions")
    if r is None:
        rec.case(case, nontrivial=False)
        return
    true_all = irv.all_true_assertions(cands, r["counter"], r["tot"], r["asn_func"])
    dstar, wit = irv.minmax_difficulty(cands, winner, true_all)
    if dstar == float("inf"):
        rec.case(case, nontrivial=False)
        rec.count("not_auditable_skipped")
        return
    neb, nen = irv.index_assertions((k, v[2]) for k, v in true_all.items())
    per_order = set(round(irv.cheapest_contradiction(o, neb, nen), 9) for o in irv.alt_orders(cands, winner))
    rec.case(case, nontrivial=len(per_order) >= 2,
             sample={k: case[k] for k in ("cands", "winner", "asn", "order")} | {"ballots": case["ballots"][:8], "n_ballots": len(case["ballots"])})
    res = [a for a in r["result"] if rc.key_of(a, r["NEB"], r["NEN"]) is not None]
    if not res:
        # an audit is possible (the optimum is finite) and nothing is returned: there is no largest difficulty to equal
        # the optimum (C04 reports the same run as a wrong "not auditable")
        rec.count("library_says_not_auditable")
        rec.violation("c15.optimal", "nothing_returned_although_a_sufficient_set_of_finite_difficulty_exists",
                      {"optimum": dstar, "order_forcing_optimum": list(wit) if wit else None})
        return
    got = max(a.difficulty for a in res)
    rec.count("optimum_compared")
    rec.count(f"hint:{'none' if not case['order'] else 'true' if case['order'] == irv.irv_order(cands, r['counter']) else 'wrong'}")
    rec.count(f"asn:{case['asn']}")
    rec.count(f"n_candidates:{len(cands)}")
    if case.get("weights"):
        rec.count("optimum_compared:large_electorate")
        ds = sorted(v[2] for v in true_all.values() if v[2] < float("inf"))
        if any(0 < b - a <= 1e-5 * b for a, b in zip(ds, ds[1:])):
            rec.count("optimum_compared:distinct_difficulties_that_agree_to_five_digits")
    worst_keys = [k for k, v in true_all.items() if abs(v[2] - dstar) <= 1e-9 * abs(dstar)]
    if any(k[0] == "NEN" for k in worst_keys):
        rec.count("optimum_is_NEN")
    if any(k[0] == "NEB" for k in worst_keys):
        rec.count("optimum_is_NEB")
    if abs(got - dstar) > 1e-9 * max(abs(got), abs(dstar)):
        rec.violation("c15.optimal", "returned_set_harder_than_optimum" if got > dstar else "returned_set_easier_than_any_sufficient_set",
                      {"returned_max_difficulty": got, "optimum": dstar, "order_forcing_optimum": list(wit) if wit else None,
                       "returned": [a.to_str() for a in res]})
