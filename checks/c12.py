"""C12 — test statistics equal their published definitions; ALPHA and betting forms agree; conversions invert.

Monitors
  c12.ref      reference-model monitor: a plain-Python loop evaluates the defining product on the same sample with
               the eta_j / lambda_j returned by the real estimator / bet; every history entry is compared.
  c12.equiv    betting_mart(bet B) vs alpha_mart(estimator eta_j = mu_j (1 + lambda_j (u - mu_j))) on the same data.
  c12.inverse  eta_to_lam(lam_to_eta(l, m), m) == l and lam_to_eta(eta_to_lam(e, m), m) == e on scalars and arrays.
"""
import math
import random

import numpy as np

from vlib import nn, nnref

RULE = ("stratified + seeded random (configuration, sample) pairs; non-trivial = non-constant sample of length >= 2 "
        "(so that products do not collapse to powers) or finite N with the null mean moving; distinct = hash of "
        "(kind, configuration, sample)")
REQUIRED = [f"ref_compared:{nn.label({'test': a, 'estim': b, 'bet': c})}" for a, b, c in nn.COMBOS] + \
           ["equiv_compared", "inverse_checked", "entries_eq", "entries_boundary", "stratum:nondyadic_boundary_neighbourhood", "stratum:early_wins_then_zeros_to_census", "stratum:long_sample",
            "stratum:exact_hit_then_zero_then_nondyadic", "inverse_checked_with_null_mean_outside_0_u",
            "ref_compared:finite_N_given_as_a_numpy_integer", "predictability_of_the_estimator_values_probed", "ref_compared:fixed_bet_above_1_over_u",
            "ref_compared:negative_betting_product_seen", "ref_compared:tuning_parameters_reassigned_after_construction",
            "stratum:total_passes_N_t_by_an_ulp_and_the_sample_goes_on",
            "stratum:long_sample:overflow_then_zero_then_exact_total_then_more"]
ASSUMPTIONS = ["eta_j and lambda_j are taken from the real estimator/bet (their ranges are C13's business)",
               "boundary-index conventions of DESIGN.md C12: at the index where the total first exceeds N t either the "
               "product value or 0 is accepted; where mu_j is within the code's tolerances of 0 or u either the product "
               "value or 1; indices where the defining formula is 0/0 or x/0 are skipped",
               "Kaplan-Kolmogorov conventions are evaluated on the padded data x+g against t+g",
               "the SPRT alternative mean is kept in [0,u] (repository fix 68329e7)"]
N_CASES = {"quick": 160000, "thorough": 1500000}


def plan(tier, seed):
    shards = 16
    return [{"n": N_CASES[tier] // shards, "shard": i} for i in range(shards)]


def run_shard(spec, rec):
    rng = random.Random(f"c12-{spec['seed']}-{spec['shard']}")
    for i in range(spec["n"]):
        r = i % 12
        if r < 9 and i % 600 == r + 12:
            cfg = nn.gen_cfg(rng, combo=nn.COMBOS[r], finite=True)
            y = nn.gen_exact_hit_then_nondyadic(rng, cfg)
            if y and nn.in_domain(cfg, y):
                rec.count("stratum:exact_hit_then_zero_then_nondyadic")
                run_case({"kind": "ref", "cfg": cfg, "x": y, "stratum": "exact_hit_then_zero_then_nondyadic"}, rec)
            continue
        if r < 9 and i % 600 == r + 24:
            cfg = nn.gen_cfg(rng, combo=nn.COMBOS[r], finite=True)
            y = nn.gen_exceed_by_ulps(rng, cfg)
            if y and nn.in_domain(cfg, y):
                rec.count("stratum:total_passes_N_t_by_an_ulp_and_the_sample_goes_on")
                run_case({"kind": "ref", "cfg": cfg, "x": y, "stratum": "total_passes_N_t_by_an_ulp"}, rec)
            continue
        if r < 9 and i % 600 == r:
            # a long sample (600-2500 draws, bounds up to 10): products that leave the floating-point range
            cfg, desc = nn.gen_long(rng, nn.COMBOS[r])
            if nn.in_domain(cfg, nn.expand_long(desc, cfg)):
                rec.count("stratum:long_sample")
                if desc["pattern"] == "overflow_zero_exact_total_then_more":
                    rec.count("stratum:long_sample:overflow_then_zero_then_exact_total_then_more")
                run_case({"kind": "ref", "cfg": cfg, "x_long": desc, "stratum": "long_sample"}, rec)
            continue
        if r < 9:
            combo = nn.COMBOS[r]
            cfg = nn.gen_cfg(rng, combo=combo, n_max=rng.choice((6, 12, 12, 30)))
            if combo[2] == "fixed_bet" and rng.random() < 0.2:
                # a fixed fraction above 1/u (up to 1/t): the betting product is still DEFINED, and once zeros push the
                # null conditional mean above 1/lambda a factor - and the product - is negative; the history is min(1, 1/T_j)
                cfg["kw"]["lam"] = rng.choice((1.25 / cfg["u"], 1.75 / cfg["u"], 1 / cfg["t"]))
                cfg["overbet"] = True
            st, x = nn.gen_sample(rng, cfg, n_max=30)
            if i % 10 == 0:
                y = nn.gen_mu_tiny(rng, cfg, nn.cfgN(cfg) if cfg["N"] != "inf" else 30) if rng.random() < 0.5 else nn.gen_near_t(rng, cfg, nn.cfgN(cfg) if cfg["N"] != "inf" else 12)
                if y:
                    st, x = "nondyadic_boundary_neighbourhood", y
                    rec.count("stratum:nondyadic_boundary_neighbourhood")
            if i % 10 == 5 and cfg["N"] != "inf":
                cfg["N"] = rng.choice((12, 24, 30))
                cfg["t"] = rng.choice((0.125, 0.25))
                if cfg["kw"].get("eta") is not None:
                    cfg["kw"]["eta"] = (cfg["t"] + cfg["u"]) / 2
                y = nn.gen_early_wins_census(rng, cfg)
                if y:
                    st, x = "early_wins_then_zeros_to_census", y
                    rec.count("stratum:early_wins_then_zeros_to_census")
            if not nn.in_domain(cfg, x):
                continue
            run_case({"kind": "ref", "cfg": cfg, "x": x, "stratum": st}, rec)
        elif r < 11:
            cfg = nn.gen_cfg(rng, combo=nn.COMBOS[3 + (r - 9)], n_max=rng.choice((6, 12, 30)))
            st, x = nn.gen_sample(rng, cfg, n_max=30)
            run_case({"kind": "equiv", "cfg": cfg, "x": x, "stratum": st}, rec)
        else:
            u = rng.choice(nn.U_CHOICES)
            k = rng.choice((1, 1, 3, 7))
            mu = [nn.dyadic(rng, 2.0 ** -6, u - 2.0 ** -6, 6) for _ in range(k)]
            if rng.random() < 0.25:
                # null conditional means outside (0,u): the total already exceeds N t (mu < 0), or cannot reach it (mu > u);
                # the conversions are algebraic identities there as well
                mu[rng.randrange(k)] = rng.choice((-0.25, -0.0625, -1.5, u + 0.125, u + 1.0))
            lam = [nn.dyadic(rng, 0, 4, 6) if rng.random() < 0.8 else rng.choice((2.0 ** -17, 2.0 ** -20, 2.0 ** -30, 2.0 ** -45)) for _ in range(k)]   # also very small bets
            run_case({"kind": "inverse", "u": u, "mu": mu, "lam": lam}, rec)


def _seq(v, n):
    a = np.asarray(v, dtype=float)
    if a.ndim == 0:
        return [float(a)] * n
    return [float(z) for z in a]


def run_case(case, rec):
    kind = case["kind"]
    if kind == "inverse":
        return run_inverse(case, rec)
    cfg = case["cfg"]
    x = [float(v) for v in (case["x"] if "x" in case else nn.expand_long(case["x_long"], cfg))]
    N = nn.cfgN(cfg)
    rec.case(case, nontrivial=(len(set(x)) > 1))
    xa = nn.to_array(x, cfg)
    lab = nn.label(cfg)
    if kind == "ref":
        obj = nn.build(cfg)
        with np.errstate(all="ignore"):
            ok, res = rec.guard(f"c12.call:{lab}", obj.test, xa)
            if not ok:
                return
            etas = lams = None
            if cfg["test"] == "alpha_mart":
                ok, e = rec.guard(f"c12.call:{lab}", obj.estim, xa)
                if not ok:
                    return
                etas = _seq(e, len(x))
            if cfg["test"] == "betting_mart":
                ok, l = rec.guard(f"c12.call:{lab}", obj.bet, xa)
                if not ok:
                    return
                lams = _seq(l, len(x))
        p, h = res
        h = [float(v) for v in np.asarray(h, dtype=float)]
        if len(h) != len(x):
            rec.violation("c12.ref", f"{lab}:history_length", {"len_x": len(x), "len_h": len(h)})
            return
        seq = etas if etas is not None else lams
        if seq is not None and 3 <= len(x) <= 200 and case.get("probe", hash((len(x), x[0], x[-1])) % 3 == 0):
            # the definitions are products over PREDICTABLE eta_j / lambda_j: the values fed into the reference product must
            # be functions of x_1..x_{j-1}.  Probe: the same prefix followed by a different tail (u - x) must give the
            # same first k+1 values.
            k = 1 + (len(x) * 7 + int(x[0] * 16)) % (len(x) - 1)
            x2 = nn.to_array(x[:k] + [cfg["u"] - v for v in x[k:]], cfg)
            obj2 = nn.build(cfg)
            with np.errstate(all="ignore"):
                try:
                    s2 = _seq((obj2.estim if etas is not None else obj2.bet)(x2), len(x))
                except Exception:
                    s2 = None
            if s2 is not None:
                rec.count("predictability_of_the_estimator_values_probed")
                for j in range(k + 1):
                    a, b = seq[j], s2[j]
                    if not (a == b or (a != a and b != b)):
                        rec.violation("c12.ref", f"{lab}:values_fed_into_the_product_are_not_predictable",
                                      {"index": j, "tail_changed_from": k, "value": a, "value_with_other_tail": b, "x": x})
                        return
        exp = nnref.ref_history(cfg, x, etas=etas, lams=lams)
        rec.count(f"ref_compared:{lab}")
        if cfg.get("kw_built"):
            rec.count("ref_compared:tuning_parameters_reassigned_after_construction")
        if cfg.get("overbet"):
            rec.count("ref_compared:fixed_bet_above_1_over_u")
            if any(v < 0 for v in h):
                rec.count("ref_compared:negative_betting_product_seen")
        if cfg.get("N_repr"):
            rec.count("ref_compared:finite_N_given_as_a_numpy_integer")
        for e in exp:
            rec.count("entries_eq" if e[0] == "eq" else "entries_boundary" if e[0] == "any" else "entries_skipped")
        bad = nnref.compare(h, exp)
        if bad is not None:
            j, e = bad
            rec.violation("c12.ref", f"{lab}:{diagnose(cfg, x, h, exp, j)}",
                          {"index": j, "reported": h[j], "expected": e, "history": h,
                           "reference": [list(v) for v in exp], "etas": etas, "lams": lams})
    elif kind == "equiv":
        cls = nn.NM()
        bobj = nn.build(cfg)

        def estim_from_bet(self, xx, **kw):
            lam = np.asarray(bobj.bet(xx), dtype=float)
            _S, _St, _j, m = self.sjm(self.N, self.t, xx)
            return self.lam_to_eta(lam, m)

        aobj = cls(test=cls.alpha_mart, estim=estim_from_bet, u=cfg["u"], N=N, t=cfg["t"],
                   random_order=cfg.get("random_order", True))
        with np.errstate(all="ignore"):
            ok1, rb = rec.guard(f"c12.call:{lab}", bobj.test, xa)
            ok2, ra = rec.guard("c12.call:alpha_mart:from_bet", aobj.test, xa)
        if not (ok1 and ok2):
            return
        hb, ha = np.asarray(rb[1], dtype=float), np.asarray(ra[1], dtype=float)
        rec.count("equiv_compared")
        mu = nn.ref_mu(x, N, cfg["t"])
        # A bet within rounding of the maximum 1/mu_j makes the factor for a small observation equal to 0 up to
        # rounding (1 - lam mu ~ 1e-16), and eta = mu(1 + lam(u - mu)) lands within an ulp of u: there the two
        # parametrisations are the same number mathematically but ill-conditioned numerically (the sign of a 1e-16
        # factor is noise).  The comparison stops at the first such index; the identity is checked up to it.
        with np.errstate(all="ignore"):
            lamv = _seq(bobj.bet(xa), len(x))
        stop = next((j for j in range(len(x)) if mu[j] > 0 and lamv[j] * mu[j] >= 1 - 1e-9), len(x))
        if stop < len(x):
            rec.count("equiv_truncated_at_maximal_bet")
        for j in range(stop):
            # where mu_j is at a boundary both forms apply the same convention; elsewhere values must agree
            if not nnref.close(float(hb[j]), float(ha[j]), 1e-9) and not (math.isnan(hb[j]) and math.isnan(ha[j])):
                # after an exact boundary (mu = 0 or u) the ALPHA form is 0/0 while the betting form is finite:
                # those entries are overwritten by both; anything else is a disagreement
                rec.violation("c12.equiv", f"{lab}:alpha_betting_differ",
                              {"index": j, "betting": hb, "alpha": ha, "mu": mu})
                break
        if stop == len(x) and not nnref.close(float(rb[0]), float(ra[0]), 1e-9):
            rec.violation("c12.equiv", f"{lab}:overall_differ", {"betting": rb[0], "alpha": ra[0]})


def run_inverse(case, rec):
    cls = nn.NM()
    u = case["u"]
    obj = cls(u=u, N=100)
    rec.case(case, nontrivial=len(case["mu"]) > 1)
    if any(m < 0 or m > u for m in case["mu"]):
        rec.count("inverse_checked_with_null_mean_outside_0_u")
    for as_array in (True, False):
        mus = np.array(case["mu"], dtype=float) if as_array else case["mu"][0]
        lams = np.array(case["lam"], dtype=float) if as_array else case["lam"][0]
        with np.errstate(all="ignore"):
            ok, eta = rec.guard("c12.call:lam_to_eta", obj.lam_to_eta, lams, mus)
            if not ok:
                return
            ok, back = rec.guard("c12.call:eta_to_lam", obj.eta_to_lam, eta, mus)
            if not ok:
                return
            ok, eta2 = rec.guard("c12.call:lam_to_eta", obj.lam_to_eta, back, mus)
        rec.count("inverse_checked")
        want_eta = np.asarray(mus) * (1 + np.asarray(lams) * (u - np.asarray(mus)))
        if not np.allclose(eta, want_eta, rtol=1e-12, atol=0):
            rec.violation("c12.inverse", "lam_to_eta_formula", {"eta": eta, "want": want_eta})
        if not np.allclose(back, lams, rtol=1e-9, atol=1e-12):
            rec.violation("c12.inverse", "eta_to_lam_not_inverse", {"lam": lams, "back": back, "mu": mus, "u": u})
        if not np.allclose(eta2, eta, rtol=1e-9, atol=1e-12):
            rec.violation("c12.inverse", "lam_to_eta_not_inverse", {"eta": eta, "eta2": eta2})


def diagnose(cfg, x, h, exp, j):
    """Tested (not assumed) diagnosis of a mismatch, used as the mechanism signature."""
    test = cfg["test"]
    # was the product compounded twice?  history == min(1, 1/cumprod(cumprod(f)))
    try:
        Ts = []
        for e in exp:
            if e[0] == "eq":
                Ts.append(e[1])
            elif e[0] == "any":
                Ts.append(e[1][0])
            else:
                Ts.append(None)
        if all(v is not None and 0 < v for v in Ts[: j + 1]):
            raw = [1 / v if v < 1 else None for v in Ts[: j + 1]]
            if all(r is not None for r in raw):
                cc, acc = [], 1.0
                for r in raw:
                    acc *= r
                    cc.append(acc)
                if all(nnref.close(h[i], min(1.0, 1 / cc[i]), 1e-9) for i in range(j + 1)):
                    return "double_product"
    except Exception:
        pass
    e = exp[j]
    if e[0] == "eq" and e[1] == 0.0:
        return "nonzero_after_total_exceeds_Nt"
    if e[0] == "eq" and e[1] == 1.0 and test != "kaplan_markov":
        return "not_1_where_mu_above_u_or_T_le_1"
    if h[j] != h[j]:
        return "nan_entry"
    return "product_differs"
